//! Reference interpreter for IR programs.
//!
//! Written ONLY from the operator documentation (the `///` comments on the `OperatorConstraints`
//! in `dfir_lang/src/graph/ops/*.rs`, which become the DFIR operator reference) and the DFIR
//! book's description of ticks (`docs/docs/dfir/concepts/life_and_times.md`). It shares no code
//! with dfir_lang / dfir_rs / dfir_pipes. Semantics are *whole-tick*: in every tick every
//! operator sees the complete stream of items produced for it in that tick; `'tick` state is
//! empty at the start of every tick, `'static` state is carried over; `defer_tick` delivers in
//! the following tick.
//!
//! The rule implemented for each operator is quoted next to it.

use crate::ir::*;
use serde::{Deserialize, Serialize};
use std::collections::{BTreeMap, BTreeSet, VecDeque};

/// Values above this magnitude / streams above this length make a case invalid (the closures of
/// the menu are total and overflow-free only inside this envelope).
pub const MAX_ABS: i64 = 1 << 40;
pub const MAX_LEN: usize = 3000;
/// `run_available` is modelled up to this many ticks per call; more = invalid case.
pub const MAX_AVAIL_TICKS: usize = 24;

#[derive(Clone, Copy, Debug, PartialEq, Eq, Hash, Serialize, Deserialize)]
pub enum Run {
    /// `run_tick_sync()`
    Tick,
    /// `run_available_sync()`
    Available,
}

#[derive(Clone, Debug, PartialEq, Eq, Hash, Serialize, Deserialize)]
pub struct Step {
    /// items sent into each `source_stream` channel before the run call (by source index)
    pub send: Vec<Vec<Val>>,
    pub run: Run,
}

#[derive(Clone, Debug, PartialEq, Eq, Hash, Serialize, Deserialize)]
pub struct Script {
    pub steps: Vec<Step>,
}

#[derive(Clone, Debug, Default, PartialEq, Eq)]
pub struct Expected {
    /// (tick, sink, item) in model order (order inside a (tick, sink) group is meaningful only
    /// for `Seq` sinks)
    pub log: Vec<(u64, usize, Val)>,
    /// value of `current_tick()` after each step
    pub ticks_after: Vec<u64>,
    /// the case left the envelope in which the model is defined
    pub invalid: Option<String>,
    /// number of ticks in which some non-lazy deferred data and some lazy deferred data coexisted
    pub lazy_and_nonlazy: u64,
    pub max_avail_ticks: u64,
}

#[derive(Clone, Debug)]
enum St {
    None,
    Count(i64),
    Zip(VecDeque<Val>, VecDeque<Val>),
    Two(Vec<Val>, Vec<Val>),
    Acc(Val),
    OptAcc(Option<Val>),
    Keyed(BTreeMap<Val, Val>),
    Set(BTreeSet<Val>),
    List(Vec<Val>),
    Counts(BTreeMap<Val, usize>),
    FusedL(BTreeMap<Val, Val>, BTreeMap<Val, Val>, Vec<Val>, Vec<Val>),
}

pub struct Machine<'a> {
    prog: &'a Prog,
    st: Vec<St>,
    /// output buffers of defer_tick nodes (what they will emit in the next tick)
    deferred: Vec<Vec<Val>>,
    srciter_done: bool,
    pub tick: u64,
    pub invalid: Option<String>,
    /// all streams of the most recent tick (node -> port -> items), for the reducer
    pub last_out: Vec<Vec<Vec<Val>>>,
}

type Streams = Vec<Vec<Vec<Val>>>; // node -> port -> items

impl<'a> Machine<'a> {
    pub fn new(prog: &'a Prog) -> Machine<'a> {
        Machine {
            prog,
            st: vec![St::None; prog.nodes.len()],
            deferred: vec![vec![]; prog.nodes.len()],
            srciter_done: false,
            tick: 0,
            invalid: None,
            last_out: vec![],
        }
    }

    fn bad(&mut self, why: impl Into<String>) {
        if self.invalid.is_none() {
            self.invalid = Some(why.into());
        }
    }

    /// Is some non-lazy / lazy defer buffer non-empty (i.e. data waiting for the next tick)?
    pub fn pending(&self) -> (bool, bool) {
        let mut nonlazy = false;
        let mut lazy = false;
        for (i, n) in self.prog.nodes.iter().enumerate() {
            if let Op::DeferTick { lazy: l, .. } = n.op {
                if !self.deferred[i].is_empty() {
                    if l {
                        lazy = true
                    } else {
                        nonlazy = true
                    }
                }
            }
        }
        (nonlazy, lazy)
    }

    /// Run one tick with the given external inputs; returns (sink, items) groups.
    pub fn run_tick(&mut self, inputs: &[Vec<Val>]) -> Vec<(usize, Vec<Val>)> {
        let prog = self.prog;
        let n = prog.nodes.len();
        let mut out: Streams = vec![vec![]; n];
        let mut sinks = vec![];
        // 1. defer_tick nodes emit what they buffered in the previous tick
        //    ("Buffers all input items and releases them at the next time boundary")
        for i in 0..n {
            if let Op::DeferTick { .. } = prog.nodes[i].op {
                out[i] = vec![std::mem::take(&mut self.deferred[i])];
            }
        }
        // 2. everything else in dependency (= index) order
        for i in 0..n {
            let node = &prog.nodes[i];
            if let Op::DeferTick { .. } = node.op {
                continue;
            }
            let ins: Vec<Vec<Val>> = node
                .ins
                .iter()
                .map(|e| out[e.node][e.port].clone())
                .collect();
            // products are bounded before they are materialised
            if matches!(
                node.op,
                Op::Join { .. }
                    | Op::CrossJoin { .. }
                    | Op::JoinMultisetHalf { .. }
                    | Op::JoinFused { .. }
                    | Op::LatticeJoinFused { .. }
                    | Op::CrossSingleton { .. }
            ) {
                let (la, lb) = self.state_sizes(i);
                if (ins[0].len() + la) * (ins[1].len() + lb).max(1) > 4 * MAX_LEN {
                    self.bad("join product too large");
                }
            }
            if self.invalid.is_some() {
                // leave the tick: the case is outside the envelope and will be dropped
                self.tick += 1;
                self.last_out = out;
                return vec![];
            }
            let res = self.eval(i, &node.op, ins, inputs, &mut out);
            for port in &res {
                if port.len() > MAX_LEN {
                    self.bad("stream too long");
                }
                for v in port {
                    if v.max_abs() > MAX_ABS {
                        self.bad("value too large");
                    }
                }
            }
            if let Op::ForEach { sink } = node.op {
                sinks.push((sink, out[node.ins[0].node][node.ins[0].port].clone()));
            }
            out[i] = res;
        }
        // 3. defer_tick nodes buffer their complete input of this tick
        for i in 0..n {
            if let Op::DeferTick { .. } = prog.nodes[i].op {
                let e = prog.nodes[i].ins[0];
                self.deferred[i] = out[e.node][e.port].clone();
            }
        }
        // 4. end of tick: 'tick state is dropped
        for i in 0..n {
            self.end_tick(i);
        }
        self.srciter_done = true;
        self.tick += 1;
        self.last_out = out;
        sinks.sort_by_key(|s| s.0);
        sinks
    }

    fn state_sizes(&self, i: usize) -> (usize, usize) {
        match &self.st[i] {
            St::Two(l, r) => (l.len(), r.len()),
            St::FusedL(la, ra, lm, rm) => (la.len() + lm.len(), ra.len() + rm.len()),
            _ => (0, 0),
        }
    }

    fn end_tick(&mut self, i: usize) {
        let op = &self.prog.nodes[i].op;
        let st = &mut self.st[i];
        let tick1 = |p: &Vec<Pers>| resolve_pers(p, 1)[0] == Pers::Tick;
        match op {
            Op::Enumerate { pers }
            | Op::Fold { pers, .. }
            | Op::Reduce { pers, .. }
            | Op::FoldKeyed { pers, .. }
            | Op::ReduceKeyed { pers, .. }
            | Op::Scan { pers, .. }
            | Op::Unique { pers }
            | Op::LatticeFold { pers }
            | Op::LatticeReduce { pers }
            | Op::State { pers }
            | Op::StateBy { pers } => {
                if tick1(pers) {
                    *st = St::None;
                }
            }
            Op::Zip { pers } => {
                let p = resolve_pers(pers, 2);
                if let St::Zip(l, r) = st {
                    // "Within the lifetime, excess items from one input or the other will be discarded"
                    if p[0] == Pers::Tick {
                        l.clear();
                    }
                    if p[1] == Pers::Tick {
                        r.clear();
                    }
                }
            }
            Op::ZipLongest { .. } | Op::CrossSingleton { .. } => *st = St::None,
            Op::Join { pers, .. }
            | Op::CrossJoin { pers, .. }
            | Op::AntiJoin { pers }
            | Op::Difference { pers }
            | Op::JoinMultisetHalf { pers } => {
                let p = resolve_pers(pers, 2);
                if let St::Two(l, r) = st {
                    if p[0] == Pers::Tick {
                        l.clear();
                    }
                    if p[1] == Pers::Tick {
                        r.clear();
                    }
                }
            }
            Op::JoinFused { pers, .. } | Op::LatticeJoinFused { pers } => {
                let p = resolve_pers(pers, 2);
                if let St::FusedL(la, ra, lm, rm) = st {
                    if p[0] == Pers::Tick {
                        la.clear();
                        lm.clear();
                    }
                    if p[1] == Pers::Tick {
                        ra.clear();
                        rm.clear();
                    }
                }
            }
            _ => {}
        }
    }

    fn eval(&mut self, i: usize, op: &Op, mut ins: Vec<Vec<Val>>, inputs: &[Vec<Val>], out: &mut Streams) -> Vec<Vec<Val>> {
        let one = |v: Vec<Val>| vec![v];
        match op {
            // "emits each of the elements it receives downstream"
            Op::SrcStream { src, .. } => one(inputs.get(*src).cloned().unwrap_or_default()),
            // "Note that all elements are emitted during the first tick."
            Op::SrcIter { items, .. } => one(if self.srciter_done { vec![] } else { items.clone() }),
            // "For each item passed in, apply the closure to generate an item to emit."
            Op::Map(f) => one(ins[0].iter().map(|x| map_fn(f, x)).collect()),
            // "Filter outputs a subsequence of the items it receives at its input"
            Op::Filter(f) => one(ins.remove(0).into_iter().filter(|x| pred(f, x)).collect()),
            // "yields only the items for which the supplied closure returns Some(value)"
            Op::FilterMap(f) => one(ins[0].iter().filter_map(|x| fm_fn(f, x)).collect()),
            // "treat i as an iterator and map the closure to that iterator to produce items one by one"
            Op::FlatMap(f) => one(ins[0].iter().flat_map(|x| flat_fn(f, x)).collect()),
            // "treat i as an iterator and produce its items one by one"
            Op::Flatten => one(
                ins[0]
                    .iter()
                    .flat_map(|x| match x {
                        Val::V(v) => v.clone(),
                        _ => panic!("interpreter typing bug: flatten of non-vec"),
                    })
                    .collect(),
            ),
            // "inspect each element of a stream without modifying it"; "pass it out without any change"
            Op::Inspect | Op::Identity { .. } | Op::Handoff | Op::Singleton | Op::Optional => one(ins.remove(0)),
            // "enumerate it with its index: (0, x_0), (1, x_1) ... 'tick: indexing will restart at zero
            // at the start of each tick. 'static will never reset and count monotonically upwards."
            Op::Enumerate { .. } => {
                let mut c = match self.st[i] {
                    St::Count(c) => c,
                    _ => 0,
                };
                let v = ins[0]
                    .iter()
                    .map(|x| {
                        let r = Val::T(vec![Val::I(c), x.clone()]);
                        c += 1;
                        r
                    })
                    .collect();
                self.st[i] = St::Count(c);
                one(v)
            }
            // "produces a sorted version of the stream ... only the values received within that tick"
            Op::Sort => {
                let mut v = ins.remove(0);
                v.sort();
                one(v)
            }
            // "sorts according to the key extracted by the closure" (ties: unspecified; the analysis
            // classes the output as Bag unless the key is the whole item)
            Op::SortByKey(k) => {
                let mut v = ins.remove(0);
                v.sort_by_key(|x| key_fn(k, x));
                one(v)
            }
            Op::RefMap { target, f, .. } => {
            // The referenced value is the complete output of the target's producers for this tick
            // (the target node was evaluated earlier); holders run in access-group order = index
            // order (checked by the analysis), each for all its items; writers update the value in
            // place, so later holders and the pipe consumer of the target see the update.
                let mut v = vec![];
                for x in &ins[0] {
                    let buf = &mut out[*target][0];
                    v.push(match f {
                        RefFn::PairWith => Val::T(vec![x.clone(), buf[0].clone()]),
                        RefFn::Add => Val::I(x.int() + buf[0].int()),
                        RefFn::Len => Val::T(vec![x.clone(), Val::I(buf.len() as i64)]),
                        RefFn::SumBuf => Val::T(vec![x.clone(), Val::I(buf.iter().map(|b| b.int()).sum())]),
                        RefFn::MulAdd(a) => {
                            buf[0] = Val::I((buf[0].int() * a + x.int()) % M);
                            x.clone()
                        }
                        RefFn::Push => {
                            buf.push(x.clone());
                            x.clone()
                        }
                        RefFn::Retain => {
                            buf.retain(|y| y != x);
                            x.clone()
                        }
                    });
                }
                one(v)
            }
            // "delivers a copy of each item to each output"
            Op::Tee { n } => vec![ins.remove(0); *n],
            // "unzips each one, delivers each item to its corresponding side"
            Op::Unzip => {
                let mut a = vec![];
                let mut b = vec![];
                for x in &ins[0] {
                    let (l, r) = x.kv();
                    a.push(l.clone());
                    b.push(r.clone());
                }
                vec![a, b]
            }
            // indexed mode: "The closure returns the index of the desired output port."
            Op::Partition { f, n } => {
                let mut ports = vec![vec![]; *n];
                for x in ins.remove(0) {
                    let idx = part_fn(f, &x, *n);
                    ports[idx].push(x);
                }
                ports
            }
            // "Each input sequence is a subsequence of the output, but no guarantee is given on how
            // the inputs are interleaved." (Bag)
            Op::Union { .. } => one(ins.into_iter().flatten().collect()),
            // "all the elements of the first emitted before the second"
            Op::Chain => one(ins.into_iter().flatten().collect()),
            // "... emitting up to N elements"
            Op::ChainFirstN { n } => one(ins.into_iter().flatten().take(*n).collect()),
            // "Zips the streams together, forming paired tuples of the inputs. ... zipping is done
            // per-tick. ... Within the lifetime, excess items from one input or the other will be discarded."
            Op::Zip { .. } => {
                if !matches!(self.st[i], St::Zip(..)) {
                    self.st[i] = St::Zip(VecDeque::new(), VecDeque::new());
                }
                let St::Zip(l, r) = &mut self.st[i] else { unreachable!() };
                l.extend(ins[0].iter().cloned());
                r.extend(ins[1].iter().cloned());
                let k = l.len().min(r.len());
                let mut v = vec![];
                for _ in 0..k {
                    v.push(Val::T(vec![l.pop_front().unwrap(), r.pop_front().unwrap()]));
                }
                one(v)
            }
            // "Excess items are returned as EitherOrBoth::Left(V1) or EitherOrBoth::Right(V2)."
            Op::ZipLongest { .. } => {
                let (a, b) = (&ins[0], &ins[1]);
                let mut v = vec![];
                for k in 0..a.len().max(b.len()) {
                    v.push(match (a.get(k), b.get(k)) {
                        (Some(x), Some(y)) => Val::B(Box::new(x.clone()), Box::new(y.clone())),
                        (Some(x), None) => Val::L(Box::new(x.clone())),
                        (None, Some(y)) => Val::R(Box::new(y.clone())),
                        _ => unreachable!(),
                    });
                }
                one(v)
            }
            // join: "Forms the equijoin of the tuples in the input streams by their first (key)
            // attribute. ... With 'tick, pairs will only be joined with corresponding pairs within the
            // same tick. With 'static, pairs will be remembered across ticks and will be joined with
            // pairs arriving in later ticks. ... join is defined to treat its inputs as *sets*";
            // join_multiset: "collected into multisets rather than sets before joining".
            // Every tick emits the join of everything held (property C21; `replay_static` test).
            Op::Join { multiset, .. } => {
                let (l, r) = self.two(i, &ins, !*multiset);
                let mut v = vec![];
                for a in &l {
                    let (ka, va) = a.kv();
                    for b in &r {
                        let (kb, vb) = b.kv();
                        if ka == kb {
                            v.push(Val::T(vec![ka.clone(), Val::T(vec![va.clone(), vb.clone()])]));
                        }
                    }
                }
                one(v)
            }
            // "Forms the cross-join (Cartesian product) of the items in the input streams, returning all
            // tupled pairs." + persistence "in the same way as join"; multiset variant "regardless of duplicates"
            Op::CrossJoin { multiset, .. } => {
                let (l, r) = self.two(i, &ins, !*multiset);
                let mut v = vec![];
                for a in &l {
                    for b in &r {
                        v.push(Val::T(vec![a.clone(), b.clone()]));
                    }
                }
                one(v)
            }
            // "the build side is accumulated first and then the probe side streams through, emitting
            // matches", output (K, (V2, V1)) with V1 = build value, V2 = probe value; multiset.
            Op::JoinMultisetHalf { .. } => {
                let (build, probe) = self.two(i, &ins, false);
                let mut v = vec![];
                for pr in &probe {
                    let (kp, vp) = pr.kv();
                    for b in &build {
                        let (kb, vb) = b.kv();
                        if kp == kb {
                            v.push(Val::T(vec![kp.clone(), Val::T(vec![vp.clone(), vb.clone()])]));
                        }
                    }
                }
                one(v)
            }
            // "join_fused first performs a fold_keyed/reduce_keyed operation on each input stream
            // before performing joining"; "_lhs: the right hand side input 1 is a regular
            // join_multiset input"; "'static: behaves identically to if persist::<'static>() were
            // placed before the inputs".
            Op::JoinFused { lhs, rhs, .. } => {
                if !matches!(self.st[i], St::FusedL(..)) {
                    self.st[i] = St::FusedL(BTreeMap::new(), BTreeMap::new(), vec![], vec![]);
                }
                let St::FusedL(la, ra, lm, rm) = &mut self.st[i] else { unreachable!() };
                match lhs {
                    Some(a) => fused_acc(a, la, &ins[0]),
                    None => lm.extend(ins[0].iter().cloned()),
                }
                match rhs {
                    Some(a) => fused_acc(a, ra, &ins[1]),
                    None => rm.extend(ins[1].iter().cloned()),
                }
                let lside: Vec<(Val, Val)> = match lhs {
                    Some(_) => la.iter().map(|(k, v)| (k.clone(), v.clone())).collect(),
                    None => lm.iter().map(|x| (x.kv().0.clone(), x.kv().1.clone())).collect(),
                };
                let rside: Vec<(Val, Val)> = match rhs {
                    Some(_) => ra.iter().map(|(k, v)| (k.clone(), v.clone())).collect(),
                    None => rm.iter().map(|x| (x.kv().0.clone(), x.kv().1.clone())).collect(),
                };
                let mut v = vec![];
                for (ka, va) in &lside {
                    for (kb, vb) in &rside {
                        if ka == kb {
                            v.push(Val::T(vec![ka.clone(), Val::T(vec![va.clone(), vb.clone()])]));
                        }
                    }
                }
                one(v)
            }
            // "returning items in the pos input that do not have matching keys in the neg input. NOTE
            // this uses multiset semantics only on the positive side" (+ persistence as for join:
            // neg 'static = every key ever seen on neg; pos 'static = every pos item ever seen)
            Op::AntiJoin { .. } => {
                let (pos, neg) = self.two(i, &ins, false);
                let negs: BTreeSet<&Val> = neg.iter().collect();
                one(pos.iter().filter(|x| !negs.contains(x.kv().0)).cloned().collect())
            }
            // "returning items in the pos input that are not found in the neg input"
            Op::Difference { .. } => {
                let (pos, neg) = self.two(i, &ins, false);
                let negs: BTreeSet<&Val> = neg.iter().collect();
                one(pos.iter().filter(|x| !negs.contains(x)).cloned().collect())
            }
            // "treats one of the inputs as a singleton-like stream, ignoring everything after the first
            // element. ... joins it with all the elements in the other stream if an element is present"
            Op::CrossSingleton { .. } => match ins[1].first() {
                Some(s) => one(ins[0].iter().map(|x| Val::T(vec![x.clone(), s.clone()])).collect()),
                None => one(vec![]),
            },
            // "Data that is delivered on this input is collected in order inside of the defer_signal
            // operator. When anything is sent to signal the collected data is released downstream. The
            // entire signal input is consumed each tick"
            Op::DeferSignal => {
                if !matches!(self.st[i], St::List(_)) {
                    self.st[i] = St::List(vec![]);
                }
                let St::List(buf) = &mut self.st[i] else { unreachable!() };
                buf.extend(ins[0].iter().cloned());
                if !ins[1].is_empty() {
                    one(std::mem::take(buf))
                } else {
                    one(vec![])
                }
            }
            // fold: "Folds every item into an accumulator by applying a closure, returning the final
            // result. ... With 'tick, Items will only be collected within the same tick. With 'static,
            // the accumulated value will be remembered across ticks"; fold_no_replay: "does not replay
            // the accumulated value on ticks where there is no new input".
            Op::Fold { f, replay, .. } => {
                let mut acc = match &self.st[i] {
                    St::Acc(a) => a.clone(),
                    _ => fold_init(f),
                };
                for x in &ins[0] {
                    fold_step(f, &mut acc, x);
                }
                self.st[i] = St::Acc(acc.clone());
                if !*replay && ins[0].is_empty() && self.tick == 0 {
                    // Whether the initial value is emitted once in the very first tick when no
                    // input has arrived yet is not covered by "does not replay the accumulated
                    // value on ticks where there is no new input": not modelled.
                    self.bad("fold_no_replay without input in the first tick: not documented");
                }
                if *replay || !ins[0].is_empty() {
                    one(vec![acc])
                } else {
                    one(vec![])
                }
            }
            // reduce: like Iterator::reduce (nothing for an empty stream); persistence as for fold.
            Op::Reduce { f, replay, .. } => {
                let mut acc = match &self.st[i] {
                    St::OptAcc(a) => a.clone(),
                    _ => None,
                };
                for x in &ins[0] {
                    match &mut acc {
                        None => acc = Some(x.clone()),
                        Some(a) => red_step(f, a, x),
                    }
                }
                self.st[i] = St::OptAcc(acc.clone());
                if *replay || !ins[0].is_empty() {
                    one(acc.into_iter().collect())
                } else {
                    one(vec![])
                }
            }
            // "The output will have one tuple for each distinct K, with an accumulated value"
            Op::FoldKeyed { f, .. } => {
                if !matches!(self.st[i], St::Keyed(_)) {
                    self.st[i] = St::Keyed(BTreeMap::new());
                }
                let St::Keyed(m) = &mut self.st[i] else { unreachable!() };
                for x in &ins[0] {
                    let (k, v) = x.kv();
                    let acc = m.entry(k.clone()).or_insert_with(|| fold_init(f));
                    fold_step(f, acc, v);
                }
                one(m.iter().map(|(k, v)| Val::T(vec![k.clone(), v.clone()])).collect())
            }
            Op::ReduceKeyed { f, .. } => {
                if !matches!(self.st[i], St::Keyed(_)) {
                    self.st[i] = St::Keyed(BTreeMap::new());
                }
                let St::Keyed(m) = &mut self.st[i] else { unreachable!() };
                for x in &ins[0] {
                    let (k, v) = x.kv();
                    match m.get_mut(k) {
                        None => {
                            m.insert(k.clone(), v.clone());
                        }
                        Some(a) => red_step(f, a, v),
                    }
                }
                one(m.iter().map(|(k, v)| Val::T(vec![k.clone(), v.clone()])).collect())
            }
            // "applies a function to each element of the stream, maintaining an internal state
            // (accumulator) and emitting the values returned by the function. The function can return
            // None to terminate the stream early."
            Op::Scan { f, .. } => {
                let mut acc = match &self.st[i] {
                    St::OptAcc(a) => a.clone(),
                    _ => Some(scan_init(f)),
                };
                let mut v = vec![];
                for x in &ins[0] {
                    let Some(a) = &mut acc else { break };
                    match scan_step(f, a, x) {
                        Some(o) => v.push(o),
                        None => {
                            acc = None;
                        }
                    }
                }
                self.st[i] = St::OptAcc(acc);
                one(v)
            }
            // "filters out any duplicate occurrences ... With 'tick, uniqueness is only considered
            // within the current tick ... With 'static ... no duplicates will ever be emitted."
            Op::Unique { .. } => {
                if !matches!(self.st[i], St::Set(_)) {
                    self.st[i] = St::Set(BTreeSet::new());
                }
                let St::Set(s) = &mut self.st[i] else { unreachable!() };
                one(ins.remove(0).into_iter().filter(|x| s.insert(x.clone())).collect())
            }
            // "Stores each item as it passes through, and replays all item every tick."
            Op::Persist => {
                if !matches!(self.st[i], St::List(_)) {
                    self.st[i] = St::List(vec![]);
                }
                let St::List(l) = &mut self.st[i] else { unreachable!() };
                l.extend(ins.remove(0));
                one(l.clone())
            }
            // "Multiset delta from the previous tick." (doc example: the first occurrences up to the
            // previous tick's multiplicity are removed)
            Op::MultisetDelta => {
                let prev = match &self.st[i] {
                    St::Counts(c) => c.clone(),
                    _ => BTreeMap::new(),
                };
                let mut cur: BTreeMap<Val, usize> = BTreeMap::new();
                let mut v = vec![];
                for x in ins.remove(0) {
                    let c = cur.entry(x.clone()).or_insert(0);
                    *c += 1;
                    if *c > prev.get(&x).copied().unwrap_or(0) {
                        v.push(x);
                    }
                }
                self.st[i] = St::Counts(cur);
                one(v)
            }
            Op::DeferTick { .. } => unreachable!(),
            // "lattice_fold(MyLattice::default) is equivalent to fold(MyLattice::default, Merge::merge)"
            Op::LatticeFold { .. } => {
                let mut acc = match &self.st[i] {
                    St::Acc(a) => a.clone(),
                    _ => lattice_bot(&ins[0], self.prog, i),
                };
                for x in &ins[0] {
                    lattice_merge(&mut acc, x);
                }
                self.st[i] = St::Acc(acc.clone());
                one(vec![acc])
            }
            // "lattice_reduce() is equivalent to reduce(Merge::merge)"
            Op::LatticeReduce { .. } => {
                let mut acc = match &self.st[i] {
                    St::OptAcc(a) => a.clone(),
                    _ => None,
                };
                for x in &ins[0] {
                    match &mut acc {
                        None => acc = Some(x.clone()),
                        Some(a) => {
                            lattice_merge(a, x);
                        }
                    }
                }
                self.st[i] = St::OptAcc(acc.clone());
                one(acc.into_iter().collect())
            }
            // "[items]: emits the input items that actually changed the lattice state (deltas).
            //  [state]: emits a clone of the accumulated lattice value after all items are processed."
            Op::State { .. } => {
                let mut acc = match &self.st[i] {
                    St::Acc(a) => a.clone(),
                    _ => Val::Mx(i64::MIN),
                };
                let mut items = vec![];
                for x in &ins[0] {
                    if lattice_merge(&mut acc, x) {
                        items.push(x.clone());
                    }
                }
                self.st[i] = St::Acc(acc.clone());
                vec![items, vec![acc]]
            }
            // state_by: "with a closure to map the input to the state lattice"; [items] "are of the same
            // type as the inputs", emitted when they changed the state; [state] as for `state`.
            Op::StateBy { .. } => {
                let mut acc = match &self.st[i] {
                    St::Acc(a) => a.clone(),
                    _ => Val::Mx(i64::MIN),
                };
                let mut items = vec![];
                for x in &ins[0] {
                    if lattice_merge(&mut acc, &Val::Mx(x.int())) {
                        items.push(x.clone());
                    }
                }
                self.st[i] = St::Acc(acc.clone());
                vec![items, vec![acc]]
            }
            // _lattice_fold_batch: "Batches streaming input and releases it downstream when a signal is
            // delivered ... while also folding it into a single lattice data structure."
            Op::LatticeFoldBatch => {
                let mut acc = match &self.st[i] {
                    St::OptAcc(a) => a.clone(),
                    _ => None,
                };
                for x in &ins[0] {
                    match &mut acc {
                        None => acc = Some(x.clone()),
                        Some(a) => {
                            lattice_merge(a, x);
                        }
                    }
                }
                if !ins[1].is_empty() {
                    match acc.take() {
                        Some(a) => {
                            self.st[i] = St::OptAcc(None);
                            one(vec![a])
                        }
                        None => {
                            // what a signal releases when nothing has been collected is not documented
                            self.bad("_lattice_fold_batch signalled with nothing collected: not documented");
                            one(vec![])
                        }
                    }
                } else {
                    self.st[i] = St::OptAcc(acc);
                    one(vec![])
                }
            }
            // _lattice_join_fused_join: "Performs a fold_keyed with lattice-merge aggregate function on
            // each input and then forms the equijoin of the resulting key/value pairs", persistence as
            // for join; revealed as (k, (v1, v2)) by the documented map.
            Op::LatticeJoinFused { .. } => {
                if !matches!(self.st[i], St::FusedL(..)) {
                    self.st[i] = St::FusedL(BTreeMap::new(), BTreeMap::new(), vec![], vec![]);
                }
                let St::FusedL(la, ra, _, _) = &mut self.st[i] else { unreachable!() };
                for (m, items) in [(&mut *la, &ins[0]), (&mut *ra, &ins[1])] {
                    for x in items {
                        let (k, v) = x.kv();
                        match m.get_mut(k) {
                            None => {
                                m.insert(k.clone(), v.clone());
                            }
                            Some(a) => {
                                lattice_merge(a, v);
                            }
                        }
                    }
                }
                let mut v = vec![];
                for (k, a) in la.iter() {
                    if let Some(b) = ra.get(k) {
                        v.push(Val::T(vec![k.clone(), Val::p(a.int(), b.int())]));
                    }
                }
                one(v)
            }
            // "Takes an input stream of enum instances and splits them into their variants."
            // (each output carries the tuple of the variant's fields)
            Op::DemuxEnum => {
                let mut ports = vec![vec![], vec![], vec![]];
                for x in &ins[0] {
                    let t = x.tup();
                    let tag = t[0].int() as usize;
                    ports[tag].push(Val::T(t[1..].to_vec()));
                }
                ports
            }
            // "Emits a single unit `()` at the start of the first tick."
            Op::Initialize => one(if self.srciter_done { vec![] } else { vec![Val::T(vec![])] }),
            Op::ForEach { .. } | Op::Null => vec![],
        }
    }

    /// Two-sided state holding all items of the lifetime per side (lists; `set` dedups).
    fn two(&mut self, i: usize, ins: &[Vec<Val>], set: bool) -> (Vec<Val>, Vec<Val>) {
        if !matches!(self.st[i], St::Two(..)) {
            self.st[i] = St::Two(vec![], vec![]);
        }
        let St::Two(l, r) = &mut self.st[i] else { unreachable!() };
        for x in &ins[0] {
            if !set || !l.contains(x) {
                l.push(x.clone());
            }
        }
        for x in &ins[1] {
            if !set || !r.contains(x) {
                r.push(x.clone());
            }
        }
        (l.clone(), r.clone())
    }
}

fn fused_acc(a: &FusedAgg, m: &mut BTreeMap<Val, Val>, items: &[Val]) {
    for x in items {
        let (k, v) = x.kv();
        let v = v.int();
        match m.get_mut(k) {
            None => {
                let init = match a {
                    FusedAgg::ReduceSum | FusedAgg::ReducePoly => v,
                    FusedAgg::FoldSum => v,     // 0 + v
                    FusedAgg::FoldFromSum => v + 3, // FoldFrom: accumulator derived from the first value
                };
                m.insert(k.clone(), Val::I(init));
            }
            Some(acc) => {
                let a0 = acc.int();
                *acc = Val::I(match a {
                    FusedAgg::ReduceSum | FusedAgg::FoldSum | FusedAgg::FoldFromSum => a0 + v,
                    FusedAgg::ReducePoly => (a0 * 3 + v) % M,
                });
            }
        }
    }
}

fn lattice_bot(_ins: &[Val], prog: &Prog, i: usize) -> Val {
    // the accumulator type equals the input item type in the generated programs
    let a = crate::analysis::analyze(prog).expect("analysed before");
    match a.outs[i][0].ty {
        Ty::SetI => Val::S(BTreeSet::new()),
        _ => Val::Mx(i64::MIN),
    }
}

/// lattice merge; returns true if the receiver changed
fn lattice_merge(acc: &mut Val, x: &Val) -> bool {
    match (acc, x) {
        (Val::Mx(a), Val::Mx(b)) => {
            if *b > *a {
                *a = *b;
                true
            } else {
                false
            }
        }
        (Val::S(a), Val::S(b)) => {
            let before = a.len();
            a.extend(b.iter().cloned());
            a.len() != before
        }
        (a, b) => panic!("interpreter typing bug: lattice merge of {a:?} and {b:?}"),
    }
}

// ------------------------------------------------------------------------------------------
// closure menu semantics (the Rust text of the same closures is in emit.rs)
// ------------------------------------------------------------------------------------------

fn mix(leaves: &[i64]) -> i64 {
    let mut r = 0i64;
    for l in leaves {
        r = (r * 7 + (*l % M)) % M;
    }
    r
}

pub fn map_fn(f: &MapFn, x: &Val) -> Val {
    match f {
        MapFn::AddC(c) => Val::I(x.int() + c),
        MapFn::MulMod(a, m) => Val::I((x.int() * a) % m),
        MapFn::Neg => Val::I(-x.int()),
        MapFn::Half => Val::I(x.int() / 2),
        MapFn::KeyMod(m) => Val::p(x.int() % m, x.int()),
        MapFn::Dup => Val::T(vec![x.clone(), x.clone()]),
        MapFn::Swap => {
            let (k, v) = x.kv();
            Val::T(vec![v.clone(), k.clone()])
        }
        MapFn::SwapMod(m) => {
            let (k, v) = x.kv();
            Val::p(v.int() % m, k.int())
        }
        MapFn::AddV(c) => {
            let (k, v) = x.kv();
            Val::p(k.int(), v.int() + c)
        }
        MapFn::KeyModP(m) => {
            let (k, v) = x.kv();
            Val::p(k.int() % m, v.int())
        }
        MapFn::Fst => x.kv().0.clone(),
        MapFn::Snd => x.kv().1.clone(),
        MapFn::Comb => {
            let (k, v) = x.kv();
            Val::I(k.int() * 7 + v.int())
        }
        MapFn::NormI => Val::I(mix(&norm_leaves(x))),
        MapFn::NormP => {
            let l = norm_leaves(x);
            Val::p(l[0], mix(&l[1..]))
        }
        MapFn::ToVec2 => Val::V(vec![x.clone(), x.clone()]),
        MapFn::ToRangeVec => Val::V((0..x.int().rem_euclid(3)).map(Val::I).collect()),
        MapFn::ToMax => Val::Mx(x.int()),
        MapFn::FromMax => Val::I(x.int()),
        MapFn::ToSet => Val::S([Val::I(x.int())].into_iter().collect()),
        MapFn::KeyMax => {
            let (k, v) = x.kv();
            Val::T(vec![k.clone(), Val::Mx(v.int())])
        }
        MapFn::ToShape => {
            let v = x.int();
            match v.rem_euclid(3) {
                0 => Val::T(vec![Val::I(0), Val::I(v)]),
                1 => Val::T(vec![Val::I(1), Val::I(v), Val::I(v + 1)]),
                _ => Val::T(vec![Val::I(2), Val::I(v), Val::I(v * 2)]),
            }
        }
    }
}

/// Leaves for the Norm closures. Tagged values contribute a tag first so that Left/Right/Both and
/// vector lengths are observable: Left = 0, Right = 1, Both = 2; Vec and Set contribute their length.
fn norm_leaves(x: &Val) -> Vec<i64> {
    fn go(x: &Val, out: &mut Vec<i64>) {
        match x {
            Val::I(v) | Val::Mx(v) => out.push(*v),
            Val::T(v) => v.iter().for_each(|y| go(y, out)),
            Val::V(v) => {
                out.push(v.len() as i64);
                v.iter().for_each(|y| go(y, out))
            }
            Val::L(a) => {
                out.push(0);
                go(a, out)
            }
            Val::R(a) => {
                out.push(1);
                go(a, out)
            }
            Val::B(a, b) => {
                out.push(2);
                go(a, out);
                go(b, out)
            }
            Val::S(s) => {
                out.push(s.len() as i64);
                s.iter().for_each(|y| go(y, out))
            }
        }
    }
    let mut v = vec![];
    go(x, &mut v);
    if v.is_empty() {
        v.push(0);
    }
    v
}

pub fn pred(f: &Pred, x: &Val) -> bool {
    match f {
        Pred::Even => x.int() % 2 == 0,
        Pred::Odd => x.int() % 2 != 0,
        Pred::Lt(c) => x.int() < *c,
        Pred::Ne(c) => x.int() != *c,
        Pred::KeyEven => x.kv().0.int() % 2 == 0,
        Pred::ValLt(c) => x.kv().1.int() < *c,
        Pred::KLtV => x.kv().0.int() < x.kv().1.int(),
    }
}

pub fn fm_fn(f: &FmFn, x: &Val) -> Option<Val> {
    match f {
        FmFn::HalfEven => (x.int() % 2 == 0).then(|| Val::I(x.int() / 2)),
        FmFn::Diff => {
            let (k, v) = x.kv();
            (k.int() <= v.int()).then(|| Val::I(v.int() - k.int()))
        }
        FmFn::HalfV => {
            let (k, v) = x.kv();
            (v.int() % 2 == 0).then(|| Val::p(k.int(), v.int() / 2))
        }
    }
}

pub fn flat_fn(f: &FlatFn, x: &Val) -> Vec<Val> {
    match f {
        FlatFn::Two => vec![Val::I(x.int()), Val::I(x.int() + 1)],
        FlatFn::Range => (0..x.int().rem_euclid(3)).map(Val::I).collect(),
        FlatFn::Both => {
            let (k, v) = x.kv();
            vec![k.clone(), v.clone()]
        }
        FlatFn::Mirror => {
            let (k, v) = x.kv();
            vec![x.clone(), Val::T(vec![v.clone(), k.clone()])]
        }
    }
}

pub fn key_fn(k: &KeyFn, x: &Val) -> Val {
    match k {
        KeyFn::Whole => x.clone(),
        KeyFn::K => x.kv().0.clone(),
        KeyFn::V => x.kv().1.clone(),
    }
}

pub fn part_fn(f: &PartFn, x: &Val, n: usize) -> usize {
    let sel = match x {
        Val::I(v) => *v,
        _ => match f {
            PartFn::Mod => x.kv().0.int(),
            PartFn::Lt(_) => x.kv().1.int(),
        },
    };
    match f {
        PartFn::Mod => sel.rem_euclid(n as i64) as usize,
        PartFn::Lt(c) => {
            if sel < *c {
                0
            } else {
                1
            }
        }
    }
}

pub fn fold_init(f: &FoldFn) -> Val {
    match f {
        FoldFn::Sum | FoldFn::Count | FoldFn::Poly | FoldFn::PolyP => Val::I(0),
        FoldFn::Max => Val::I(-1_000_000),
        FoldFn::Push => Val::V(vec![]),
        FoldFn::SumP => Val::p(0, 0),
    }
}

pub fn fold_step(f: &FoldFn, acc: &mut Val, x: &Val) {
    match f {
        FoldFn::Sum => *acc = Val::I(acc.int() + x.int()),
        FoldFn::Count => *acc = Val::I(acc.int() + 1),
        FoldFn::Max => *acc = Val::I(acc.int().max(x.int())),
        FoldFn::Poly => *acc = Val::I((acc.int() * 3 + x.int()) % M),
        FoldFn::Push => match acc {
            Val::V(v) => v.push(x.clone()),
            _ => panic!("interpreter typing bug"),
        },
        FoldFn::SumP => {
            let (a, b) = (acc.kv().0.int(), acc.kv().1.int());
            let (k, v) = x.kv();
            *acc = Val::p(a + k.int(), b + v.int());
        }
        FoldFn::PolyP => {
            let (k, v) = x.kv();
            *acc = Val::I((acc.int() * 3 + k.int() * 5 + v.int()) % M);
        }
    }
}

pub fn red_step(f: &RedFn, acc: &mut Val, x: &Val) {
    match f {
        RedFn::Sum => *acc = Val::I(acc.int() + x.int()),
        RedFn::Max => {
            if *x > *acc {
                *acc = x.clone()
            }
        }
        RedFn::Min => {
            if *x < *acc {
                *acc = x.clone()
            }
        }
        RedFn::First => {}
        RedFn::Last => *acc = x.clone(),
        RedFn::Poly => *acc = Val::I((acc.int() * 3 + x.int()) % M),
        RedFn::SumP => {
            let (a, b) = (acc.kv().0.int(), acc.kv().1.int());
            let (k, v) = x.kv();
            *acc = Val::p(a + k.int(), b + v.int());
        }
    }
}

pub fn scan_init(_f: &ScanFn) -> Val {
    Val::I(0)
}

pub fn scan_step(f: &ScanFn, acc: &mut Val, x: &Val) -> Option<Val> {
    match f {
        ScanFn::RunSum => {
            *acc = Val::I(acc.int() + x.int());
            Some(acc.clone())
        }
        ScanFn::SumUntil(c) => {
            *acc = Val::I(acc.int() + x.int());
            if acc.int() > *c {
                None
            } else {
                Some(acc.clone())
            }
        }
        ScanFn::RunKeyed => {
            let (k, v) = x.kv();
            *acc = Val::I(acc.int() + v.int());
            Some(Val::T(vec![k.clone(), acc.clone()]))
        }
    }
}

/// Run a whole script through the model.
pub fn run_script(prog: &Prog, script: &Script) -> Expected {
    let mut m = Machine::new(prog);
    let mut ex = Expected::default();
    for step in &script.steps {
        // items sent before the call are all available to the first tick the call runs
        let mut pending: Vec<Vec<Val>> = step.send.clone();
        pending.resize(prog.sources.len(), vec![]);
        let one_tick = |m: &mut Machine, pending: &mut Vec<Vec<Val>>, ex: &mut Expected| {
            let t = m.tick;
            let inputs = std::mem::replace(pending, vec![vec![]; prog.sources.len()]);
            for (sink, items) in m.run_tick(&inputs) {
                for it in items {
                    ex.log.push((t, sink, it));
                }
            }
            let (nl, l) = m.pending();
            if nl && l {
                ex.lazy_and_nonlazy += 1;
            }
        };
        match step.run {
            Run::Tick => one_tick(&mut m, &mut pending, &mut ex),
            Run::Available => {
                // "Run ticks as long as work is available, then return." At least one tick runs;
                // another one follows while non-lazy deferred data is waiting ("The presence of
                // buffered data will cause the next tick ... to fire"); lazily deferred data does not
                // ("does not eagerly cause a new tick").
                let mut k = 0usize;
                loop {
                    one_tick(&mut m, &mut pending, &mut ex);
                    k += 1;
                    if m.invalid.is_some() {
                        break;
                    }
                    if !m.pending().0 {
                        break;
                    }
                    if k >= MAX_AVAIL_TICKS {
                        m.bad("run_available does not quiesce within the modelled bound");
                        break;
                    }
                }
                ex.max_avail_ticks = ex.max_avail_ticks.max(k as u64);
            }
        }
        ex.ticks_after.push(m.tick);
        if m.invalid.is_some() {
            break;
        }
    }
    ex.invalid = m.invalid.clone();
    ex
}

/// Streams of every node in every tick of a `run_tick`-only script (for non-triviality rules and
/// the reducer).
pub fn trace(prog: &Prog, script: &Script) -> Vec<Vec<Vec<Vec<Val>>>> {
    let mut m = Machine::new(prog);
    let mut t = vec![];
    for st in &script.steps {
        let mut inputs = st.send.clone();
        inputs.resize(prog.sources.len(), vec![]);
        m.run_tick(&inputs);
        t.push(m.last_out.clone());
    }
    t
}
