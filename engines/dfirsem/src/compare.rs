//! Comparison of the model's expectation with what the compiled program logged.

use crate::analysis::{sinks, Analysis, Ord_};
use crate::batch::RunRes;
use crate::interp::Expected;
use crate::ir::*;
use std::collections::BTreeMap;

#[derive(Clone, Debug)]
pub struct Mismatch {
    /// short class of the difference: "items", "ticks", "panic", "decode"
    pub kind: String,
    pub detail: String,
}

type Groups = BTreeMap<(u64, usize), Vec<Val>>;

pub fn group_expected(ex: &Expected) -> Groups {
    let mut g: Groups = BTreeMap::new();
    for (t, s, v) in &ex.log {
        g.entry((*t, *s)).or_default().push(v.clone());
    }
    g
}

pub fn group_actual(log: &[(u64, usize, serde_json::Value)]) -> Result<Groups, String> {
    let mut g: Groups = BTreeMap::new();
    for (t, s, v) in log {
        let val = Val::from_json(v).ok_or_else(|| format!("cannot decode logged item {v}"))?;
        g.entry((*t, *s)).or_default().push(val);
    }
    Ok(g)
}

/// Normalise the groups by the sink's order class: `Bag` sinks are compared as multisets.
pub fn normalise(g: &mut Groups, sink_ord: &BTreeMap<usize, Ord_>) {
    for ((_, s), items) in g.iter_mut() {
        if sink_ord.get(s).copied().unwrap_or(Ord_::Bag) == Ord_::Bag {
            items.sort();
        }
    }
}

pub fn sink_orders(p: &Prog, a: &Analysis) -> BTreeMap<usize, Ord_> {
    sinks(p, a).into_iter().map(|(id, _, info)| (id, info.ord)).collect()
}

fn show(items: &[Val]) -> String {
    let v: Vec<String> = items.iter().take(40).map(|x| x.to_json().to_string()).collect();
    format!("[{}]{}", v.join(","), if items.len() > 40 { "..." } else { "" })
}

pub fn diff_groups(exp: &Groups, act: &Groups, what_a: &str, what_b: &str) -> Option<String> {
    let keys: std::collections::BTreeSet<&(u64, usize)> = exp.keys().chain(act.keys()).collect();
    for k in keys {
        let e = exp.get(k).map(|v| &v[..]).unwrap_or(&[]);
        let a = act.get(k).map(|v| &v[..]).unwrap_or(&[]);
        if e != a {
            return Some(format!(
                "tick {} sink {}: {what_a} {} but {what_b} {}",
                k.0,
                k.1,
                show(e),
                show(a)
            ));
        }
    }
    None
}

pub fn compare(p: &Prog, a: &Analysis, ex: &Expected, act: &RunRes) -> Result<(), Mismatch> {
    match act {
        RunRes::Ok { log, ticks } => {
            let ord = sink_orders(p, a);
            let mut ge = group_expected(ex);
            let mut ga = group_actual(log).map_err(|e| Mismatch { kind: "decode".into(), detail: e })?;
            normalise(&mut ge, &ord);
            normalise(&mut ga, &ord);
            if let Some(d) = diff_groups(&ge, &ga, "reference interpreter expects", "compiled program emitted") {
                return Err(Mismatch { kind: "items".into(), detail: d });
            }
            if *ticks != ex.ticks_after {
                return Err(Mismatch {
                    kind: "ticks".into(),
                    detail: format!(
                        "current_tick() after each step: model {:?}, compiled program {:?}",
                        ex.ticks_after, ticks
                    ),
                });
            }
            Ok(())
        }
        RunRes::Panic(m) => Err(Mismatch { kind: "panic".into(), detail: format!("compiled program panicked: {m}") }),
        RunRes::Hang | RunRes::Missing => unreachable!("handled by the caller as inconclusive"),
    }
}
