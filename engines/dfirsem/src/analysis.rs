//! Static analysis of an IR program: item types, *order class* and cardinality class of every
//! edge, plus the validity rules that keep generated programs inside the region where the
//! operator documentation fully determines the output (DESIGN §3.3: the main false-alarm guard).
//!
//! `Seq`: the order of the items on the edge within a tick is fully determined by documented
//! semantics. `Bag`: only the multiset is (hash-based operators, `union`, unstable sorts).
//! Order-sensitive operators are only legal on `Seq` inputs.

use crate::ir::*;
use serde::{Deserialize, Serialize};

#[derive(Clone, Copy, Debug, PartialEq, Eq, Hash, Serialize, Deserialize)]
pub enum Ord_ {
    Seq,
    Bag,
}

/// How many items can be on the edge in one tick.
#[derive(Clone, Copy, Debug, PartialEq, Eq, Hash, Serialize, Deserialize)]
pub enum Card {
    /// exactly one item in every tick
    One,
    /// at most one item per tick
    Opt,
    Many,
}

#[derive(Clone, Debug, PartialEq, Eq)]
pub struct EdgeInfo {
    pub ty: Ty,
    pub ord: Ord_,
    pub card: Card,
    /// statically known to never carry an item (`source_iter` of an empty collection)
    pub empty: bool,
    /// produced directly by a `handoff()` / `singleton()` / `optional()` pseudo operator
    pub hoff: bool,
}

impl EdgeInfo {
    fn norm(mut self) -> EdgeInfo {
        if self.card != Card::Many {
            self.ord = Ord_::Seq;
        }
        self
    }
}

#[derive(Clone, Debug)]
pub struct Analysis {
    /// per node, per output port
    pub outs: Vec<Vec<EdgeInfo>>,
}

impl Analysis {
    pub fn edge(&self, e: Edge) -> &EdgeInfo {
        &self.outs[e.node][e.port]
    }
}

fn weaken(c: Card) -> Card {
    match c {
        Card::One => Card::Opt,
        x => x,
    }
}

/// Analyse and validate. `Err(reason)` = the program is outside the generated domain.
pub fn analyze(p: &Prog) -> Result<Analysis, String> {
    analyze_opt(p, true)
}

/// Like [`analyze`], but tolerates output ports that nobody consumes yet (programs under
/// construction in the generator).
pub fn infer(p: &Prog) -> Result<Analysis, String> {
    analyze_opt(p, false)
}

fn analyze_opt(p: &Prog, closed: bool) -> Result<Analysis, String> {
    let n = p.nodes.len();
    let mut outs: Vec<Option<Vec<EdgeInfo>>> = vec![None; n];
    // pre-seed the outputs of cycle-closing defer_ticks
    for (i, node) in p.nodes.iter().enumerate() {
        if let Op::DeferTick { back: Some(t), .. } = &node.op {
            outs[i] = Some(vec![EdgeInfo { ty: t.clone(), ord: Ord_::Bag, card: Card::Many, empty: false, hoff: false }]);
        }
    }
    for (i, node) in p.nodes.iter().enumerate() {
        if node.ins.len() != node.op.n_inputs() {
            return Err(format!("node {i} ({}): wrong number of inputs", node.op.name()));
        }
        for e in &node.ins {
            if e.node >= n {
                return Err(format!("node {i}: dangling edge"));
            }
            let is_back = matches!(node.op, Op::DeferTick { back: Some(_), .. });
            if e.node >= i && !is_back {
                return Err(format!("node {i}: forward edge outside a tick delay"));
            }
        }
    }
    for (i, node) in p.nodes.iter().enumerate() {
        let back = matches!(node.op, Op::DeferTick { back: Some(_), .. });
        if back {
            continue; // checked after the pass
        }
        let mut ins = vec![];
        for e in &node.ins {
            let Some(o) = &outs[e.node] else {
                return Err(format!("node {i}: input not yet defined"));
            };
            let Some(info) = o.get(e.port) else {
                return Err(format!("node {i}: input port {} of node {} does not exist", e.port, e.node));
            };
            ins.push(info.clone());
        }
        outs[i] = Some(node_out(p, i, &node.op, &ins)?);
    }
    let outs: Vec<Vec<EdgeInfo>> = outs.into_iter().map(|o| o.unwrap()).collect();
    // cycle-closing defer_ticks: the input type must be the declared one
    for (i, node) in p.nodes.iter().enumerate() {
        if let Op::DeferTick { back: Some(t), .. } = &node.op {
            let e = node.ins[0];
            let Some(info) = outs[e.node].get(e.port) else {
                return Err(format!("node {i}: back edge to a missing port"));
            };
            if info.ty != *t {
                return Err(format!("node {i}: cycle type mismatch"));
            }
        }
    }
    // every output port consumed exactly once
    let mut used: Vec<Vec<usize>> = outs.iter().map(|o| vec![0; o.len()]).collect();
    for node in &p.nodes {
        for e in &node.ins {
            used[e.node][e.port] += 1;
        }
    }
    for (i, u) in used.iter().enumerate() {
        for (port, c) in u.iter().enumerate() {
            let referenced = p
                .nodes
                .iter()
                .any(|m| matches!(m.op, Op::RefMap { target, .. } if target == i));
            if *c == 0 && referenced && matches!(p.nodes[i].op, Op::Handoff | Op::Singleton | Op::Optional) {
                continue; // reference-only handoff: allowed (0 pipe consumers)
            }
            if *c > 1 || (closed && *c != 1) {
                return Err(format!("output {port} of node {i} ({}) consumed {c} times", p.nodes[i].op.name()));
            }
        }
    }
    // sink ids unique and dense enough
    let mut seen = std::collections::BTreeSet::new();
    for node in &p.nodes {
        if let Op::ForEach { sink } = node.op {
            if !seen.insert(sink) {
                return Err("duplicate sink id".into());
            }
        }
    }
    // source_stream: each source index used at most once (a channel has one receiver)
    let mut seen = std::collections::BTreeSet::new();
    for node in &p.nodes {
        if let Op::SrcStream { src, .. } = node.op {
            if !seen.insert(src) {
                return Err("source used twice".into());
            }
        }
    }
    if let Some(o) = &p.stmt_order {
        let mut s = o.clone();
        s.sort();
        if s != (0..n).collect::<Vec<_>>() {
            return Err("stmt_order is not a permutation".into());
        }
    }
    // no handoff directly feeding a handoff (rejected by the front end by design)
    for node in &p.nodes {
        if matches!(node.op, Op::Handoff | Op::Singleton | Op::Optional) {
            let src = &p.nodes[node.ins[0].node].op;
            if matches!(src, Op::Handoff | Op::Singleton | Op::Optional) {
                return Err("adjacent handoffs".into());
            }
        }
    }
    // reference holders: the model evaluates nodes in index order, so the index order has to be a
    // legal schedule: holders of one target in non-decreasing access-group order, every pipe
    // consumer of the target after its last holder; the front end's own rules: either all holders
    // of a target carry a group or none does, and a `#mut` holder is alone in its group.
    for (t, tn) in p.nodes.iter().enumerate() {
        if !matches!(tn.op, Op::Handoff | Op::Singleton | Op::Optional) {
            continue;
        }
        let holders: Vec<(usize, Option<u32>, bool)> = p
            .nodes
            .iter()
            .enumerate()
            .filter_map(|(i, n)| match &n.op {
                Op::RefMap { target, group, f } if *target == t => Some((i, *group, f.is_write())),
                _ => None,
            })
            .collect();
        if holders.is_empty() {
            continue;
        }
        let any_group = holders.iter().any(|h| h.1.is_some());
        if any_group && holders.iter().any(|h| h.1.is_none()) {
            return Err("mixed grouped / ungrouped references to one target".into());
        }
        for w in holders.windows(2) {
            if w[0].1 > w[1].1 {
                return Err("reference holders are not in access-group order".into());
            }
        }
        for h in &holders {
            if h.2 && holders.iter().filter(|o| o.1 == h.1).count() > 1 {
                return Err("a #mut holder must be alone in its access group".into());
            }
        }
        let last = holders.iter().map(|h| h.0).max().unwrap();
        for (i, n) in p.nodes.iter().enumerate() {
            if n.ins.iter().any(|e| e.node == t) && i < last {
                return Err("pipe consumer of a referenced handoff precedes a holder in index order".into());
            }
        }
    }
    Ok(Analysis { outs })
}

pub fn node_out(p: &Prog, idx: usize, op: &Op, ins: &[EdgeInfo]) -> Result<Vec<EdgeInfo>, String> {
    let in_tys: Vec<Ty> = ins.iter().map(|e| e.ty.clone()).collect();
    let tys = out_types(op, &in_tys, &p.sources)?;
    let mk = |ty: &Ty, ord: Ord_, card: Card| EdgeInfo { ty: ty.clone(), ord, card, empty: false, hoff: false }.norm();
    let seq = |k: usize| -> Result<(), String> {
        if ins[k].ord == Ord_::Seq {
            Ok(())
        } else {
            Err(format!(
                "node {idx} ({}): input {k} is a Bag but the operator is order-sensitive",
                op.name()
            ))
        }
    };
    use Card::*;
    use Ord_::*;
    if matches!(op, Op::Handoff | Op::Singleton | Op::Optional) && ins[0].hoff {
        // "Adjacent handoff/singleton operators are not allowed." (front-end diagnostic)
        return Err("adjacent handoffs".into());
    }
    let mut out = match op {
        Op::SrcStream { .. } => vec![mk(&tys[0], Seq, Many)],
        Op::SrcIter { items, .. } => {
            let mut e = mk(&tys[0], Seq, Many);
            e.empty = items.is_empty();
            vec![e]
        }
        Op::Map(_) | Op::Inspect | Op::Identity { .. } | Op::Handoff => {
            vec![mk(&tys[0], ins[0].ord, ins[0].card)]
        }
        Op::Singleton => {
            if ins[0].card != One {
                return Err(format!("node {idx}: singleton() needs exactly one item per tick"));
            }
            vec![mk(&tys[0], Seq, One)]
        }
        Op::Optional => {
            if ins[0].card == Many {
                return Err(format!("node {idx}: optional() needs at most one item per tick"));
            }
            vec![mk(&tys[0], Seq, ins[0].card)]
        }
        Op::RefMap { target, f, .. } => {
            if *target >= idx {
                return Err("bad reference target".into());
            }
            let t = &p.nodes[*target].op;
            let ok = match f {
                RefFn::PairWith | RefFn::Add | RefFn::MulAdd(_) => matches!(t, Op::Singleton),
                RefFn::Len | RefFn::SumBuf | RefFn::Push | RefFn::Retain => matches!(t, Op::Handoff),
            };
            if !ok {
                return Err("reference target has the wrong kind".into());
            }
            vec![mk(&tys[0], ins[0].ord, ins[0].card)]
        }
        Op::Filter(_) | Op::FilterMap(_) => vec![mk(&tys[0], ins[0].ord, weaken(ins[0].card))],
        Op::FlatMap(_) | Op::Flatten => vec![mk(&tys[0], ins[0].ord, Many)],
        Op::Enumerate { .. } => {
            seq(0)?;
            vec![mk(&tys[0], Seq, ins[0].card)]
        }
        Op::Sort => vec![mk(&tys[0], Seq, ins[0].card)],
        Op::SortByKey(k) => {
            // the documentation does not promise a stable sort: ties are unordered
            let ord = if *k == KeyFn::Whole { Seq } else { Bag };
            vec![mk(&tys[0], ord, ins[0].card)]
        }
        Op::Tee { .. } => tys.iter().map(|t| mk(t, ins[0].ord, ins[0].card)).collect(),
        Op::Unzip => tys.iter().map(|t| mk(t, ins[0].ord, ins[0].card)).collect(),
        Op::Partition { .. } => tys.iter().map(|t| mk(t, ins[0].ord, weaken(ins[0].card))).collect(),
        Op::Union { n } => {
            // "Each input sequence is a subsequence of the output": when all inputs but one are
            // statically empty the output order is that of the remaining input.
            let live: Vec<&EdgeInfo> = ins.iter().filter(|e| !e.empty).collect();
            if *n == 1 {
                vec![mk(&tys[0], ins[0].ord, ins[0].card)]
            } else if live.len() == 1 {
                vec![mk(&tys[0], live[0].ord, live[0].card)]
            } else {
                vec![mk(&tys[0], Bag, Many)]
            }
        }
        Op::Chain => {
            let ord = if ins[0].ord == Seq && ins[1].ord == Seq { Seq } else { Bag };
            vec![mk(&tys[0], ord, Many)]
        }
        Op::ChainFirstN { n } => {
            seq(0)?;
            seq(1)?;
            vec![mk(&tys[0], Seq, if *n <= 1 { Opt } else { Many })]
        }
        Op::Zip { .. } => {
            seq(0)?;
            seq(1)?;
            let card = if ins[0].card != Many && ins[1].card != Many { Opt } else { Many };
            vec![mk(&tys[0], Seq, card)]
        }
        Op::ZipLongest { pers } => {
            seq(0)?;
            seq(1)?;
            if pers.iter().any(|x| *x == Pers::Static) {
                return Err("zip_longest persistence is not documented".into());
            }
            vec![mk(&tys[0], Seq, Many)]
        }
        Op::Join { .. } | Op::CrossJoin { .. } | Op::JoinMultisetHalf { .. } => vec![mk(&tys[0], Bag, Many)],
        Op::JoinFused { lhs, rhs, pers } => {
            if lhs.is_none() && rhs.is_some() && pers.len() == 2 && pers[0] != pers[1] {
                // join_fused_rhs "is identical to join_fused_lhs except that it is the right hand
                // side that is fused": whether the two persistence arguments follow the ports (as
                // documented for join) or are mirrored with the sides is not stated; the in-repo
                // test relies on the mirrored reading. Not modelled.
                return Err("join_fused_rhs with two different persistence arguments is outside the documented domain".into());
            }
            if lhs.as_ref().map(|a| !a.commutative()).unwrap_or(false) {
                seq(0)?;
            }
            if rhs.as_ref().map(|a| !a.commutative()).unwrap_or(false) {
                seq(1)?;
            }
            vec![mk(&tys[0], Bag, Many)]
        }
        Op::AntiJoin { pers } | Op::Difference { pers } => {
            let pr = resolve_pers(pers, 2);
            let card = if pr[0] == Pers::Static { Many } else { weaken(ins[0].card) };
            vec![mk(&tys[0], ins[0].ord, card)]
        }
        Op::CrossSingleton { .. } => {
            // "ignoring everything after the first element": which one is first must be determined
            seq(1)?;
            vec![mk(&tys[0], ins[0].ord, weaken(ins[0].card))]
        }
        Op::DeferSignal => vec![mk(&tys[0], ins[0].ord, Many)],
        Op::LatticeFoldBatch => vec![mk(&tys[0], Seq, Opt)],
        Op::LatticeJoinFused { .. } => vec![mk(&tys[0], Bag, Many)],
        Op::Fold { f, replay, .. } => {
            if !f.commutative() {
                seq(0)?;
            }
            vec![mk(&tys[0], Seq, if *replay { One } else { Opt })]
        }
        Op::Reduce { f, .. } => {
            if !f.commutative() {
                seq(0)?;
            }
            vec![mk(&tys[0], Seq, Opt)]
        }
        Op::FoldKeyed { f, .. } => {
            if !f.commutative() {
                seq(0)?;
            }
            vec![mk(&tys[0], Bag, Many)]
        }
        Op::ReduceKeyed { f, .. } => {
            if !f.commutative() {
                seq(0)?;
            }
            vec![mk(&tys[0], Bag, Many)]
        }
        Op::Scan { f, pers } => {
            seq(0)?;
            if matches!(f, ScanFn::SumUntil(_)) && pers.iter().any(|x| *x == Pers::Static) {
                // what a terminated 'static scan does in later ticks is not documented
                return Err("terminating scan with 'static persistence is outside the documented domain".into());
            }
            vec![mk(&tys[0], Seq, weaken(ins[0].card))]
        }
        Op::Unique { .. } => vec![mk(&tys[0], ins[0].ord, ins[0].card)],
        Op::Persist => vec![mk(&tys[0], ins[0].ord, Many)],
        Op::MultisetDelta => vec![mk(&tys[0], ins[0].ord, weaken(ins[0].card))],
        Op::DeferTick { .. } => vec![mk(&tys[0], ins[0].ord, weaken(ins[0].card))],
        Op::LatticeFold { .. } => vec![mk(&tys[0], Seq, One)],
        Op::LatticeReduce { .. } => vec![mk(&tys[0], Seq, Opt)],
        Op::State { .. } | Op::StateBy { .. } => {
            // which items "actually changed the lattice state" depends on the arrival order
            seq(0)?;
            vec![mk(&tys[0], ins[0].ord, weaken(ins[0].card)), mk(&tys[1], Seq, One)]
        }
        Op::DemuxEnum => tys.iter().map(|t| mk(t, ins[0].ord, weaken(ins[0].card))).collect(),
        Op::Initialize => vec![mk(&tys[0], Seq, Opt)],
        Op::ForEach { .. } | Op::Null => vec![],
    };
    if matches!(op, Op::Handoff | Op::Singleton | Op::Optional) {
        out[0].hoff = true;
    }
    Ok(out)
}

/// Sinks of the program: (sink id, node index, info of the edge feeding it)
pub fn sinks(p: &Prog, a: &Analysis) -> Vec<(usize, usize, EdgeInfo)> {
    let mut v = vec![];
    for (i, n) in p.nodes.iter().enumerate() {
        if let Op::ForEach { sink } = n.op {
            v.push((sink, i, a.edge(n.ins[0]).clone()));
        }
    }
    v.sort_by_key(|x| x.0);
    v
}

/// Short-circuit hazard (generator-side exclusion; see known finding "short-circuit" of C22):
/// `cross_singleton` (when `single` is empty it never pulls `input`; it only pulls the first item
/// of `single`) and `chain_first_n` (stops pulling after n items) leave part of their input
/// unpulled. A lazily evaluated operator with cross-tick state upstream in the same pull chain
/// (unique / enumerate / scan with `'static`, multiset_delta) then never sees those items, while
/// the same program with a handoff in between (or on a push side) does. What such state should
/// look like afterwards is not documented, so the random generators stay away from the pattern.
/// Conservative: any path of non-materialising operators from such a stateful operator to a
/// short-circuiting input counts.
pub fn short_circuit_hazard(p: &Prog) -> bool {
    let n = p.nodes.len();
    // flag per (node, port): carries items that passed a lazily evaluated cross-tick-stateful operator
    // without being materialised since
    let mut flag: Vec<bool> = vec![false; n];
    // iterate to a fixpoint (defer_tick back edges reset the flag anyway)
    for _ in 0..2 {
        for (i, node) in p.nodes.iter().enumerate() {
            let any_in = node.ins.iter().any(|e| e.node < n && flag[e.node]);
            let st = |pers: &Vec<Pers>| pers.iter().any(|x| *x == Pers::Static);
            flag[i] = match &node.op {
                Op::Unique { pers } | Op::Enumerate { pers } | Op::Scan { pers, .. } => st(pers) || any_in,
                Op::MultisetDelta => true,
                // materialising / blocking operators: everything upstream is consumed in full
                Op::Fold { .. }
                | Op::Reduce { .. }
                | Op::FoldKeyed { .. }
                | Op::ReduceKeyed { .. }
                | Op::Sort
                | Op::SortByKey(_)
                | Op::Persist
                | Op::Join { .. }
                | Op::CrossJoin { .. }
                | Op::JoinMultisetHalf { .. }
                | Op::JoinFused { .. }
                | Op::LatticeJoinFused { .. }
                | Op::Zip { .. }
                | Op::Handoff
                | Op::Singleton
                | Op::Optional
                | Op::DeferTick { .. }
                | Op::LatticeFold { .. }
                | Op::LatticeReduce { .. }
                | Op::LatticeFoldBatch
                | Op::SrcStream { .. }
                | Op::SrcIter { .. }
                | Op::Initialize => false,
                _ => any_in,
            };
        }
    }
    for node in &p.nodes {
        if matches!(node.op, Op::CrossSingleton { .. } | Op::ChainFirstN { .. }) && node.ins.iter().any(|e| flag[e.node]) {
            return true;
        }
    }
    false
}
