//! C26 — loop blocks: a nested `loop { }` re-runs while a non-lazy entry or loop-deferred data is
//! non-empty, `defer_tick` inside a nested loop delays by exactly one iteration, windowing
//! operators release their inputs as documented, a root-level loop runs at most once per tick.
//!
//! Parametrised skeletons following the documented behaviour of `batch`, `batch_lazy`,
//! `defer_tick`, `defer_tick_lazy`, `all_iterations` (operator docs) and the in-repo loop tests
//! (dfir_rs/tests/surface_loop.rs), with their own small model (this file) - the general IR has no
//! loop contexts.

use crate::batch::{run_batch, RunRes, Unit};
use crate::gen::Rng;
use serde::{Deserialize, Serialize};
use serde_json::json;
use std::collections::{BTreeMap, BTreeSet};
use vcommon::{hash64, Ctx, Fail, Obs};

pub const SUB: &str = "loop-model";

#[derive(Clone, Debug, PartialEq, Eq, Hash, Serialize, Deserialize)]
pub enum Body {
    /// entries -> (union) -> for_each
    Flat,
    /// root-level cycle through defer_tick / defer_tick_lazy (delays by one tick)
    RootDefer { bound: i64, mul: i64, lazy: bool },
    /// nested loop with a defer_tick / defer_tick_lazy cycle (delays by one iteration)
    Nested { bound: i64, mul: i64, lazy: bool, all_iter: bool, lazy_into_nested: bool, inner_sink: bool },
    /// nested loop with 2-3 independent defer cycles: cycle k takes the items with
    /// `x.rem_euclid(3) == res` below its bound and multiplies them (mul = 1 mod 3 keeps the class);
    /// `order` = textual declaration order of the cycles
    NestedMulti { cycles: Vec<Cyc>, order: Vec<usize>, all_iter: bool, inner_sink: bool },
}

#[derive(Clone, Debug, PartialEq, Eq, Hash, Serialize, Deserialize)]
pub struct Cyc {
    pub res: i64,
    pub bound: i64,
    pub mul: i64,
    pub lazy: bool,
}

#[derive(Clone, Debug, PartialEq, Eq, Hash, Serialize, Deserialize)]
pub struct LoopCase {
    /// number of non-lazy `batch()` entries (sources 0..n_trig)
    pub n_trig: usize,
    /// a further source enters through `batch_lazy()`
    pub lazy_entry: bool,
    pub body: Body,
    /// the sources are declared after the loop text (forward references)
    pub sources_after: bool,
    /// a second, independent root-level loop with its own source
    pub sibling: bool,
    /// per script, per tick, per source: items (all >= 1)
    pub scripts: Vec<Vec<Vec<Vec<i64>>>>,
}

const SINK_MAIN: usize = 0;
const SINK_ALL: usize = 1;
const SINK_SIBLING: usize = 2;
const SINK_LAZY_ROOT: usize = 3;

impl LoopCase {
    pub fn n_sources(&self) -> usize {
        self.n_trig + self.lazy_entry as usize + self.sibling as usize
    }
    fn lazy_src(&self) -> Option<usize> {
        self.lazy_entry.then_some(self.n_trig)
    }
    fn sibling_src(&self) -> Option<usize> {
        self.sibling.then_some(self.n_trig + self.lazy_entry as usize)
    }

    pub fn dfir(&self) -> String {
        let mut s = String::new();
        let sink = |k: usize| format!("for_each(|x: i64| lg{k}.borrow_mut().push((context.current_tick().0, {k}usize, gd::tv(&x))))");
        let mut srcs = String::new();
        for k in 0..self.n_sources() {
            srcs.push_str(&format!("src{k} = source_stream(r{k});\n"));
        }
        if !self.sources_after {
            s.push_str(&srcs);
        }
        s.push_str("loop {\n");
        let cyc = |bound: i64, mul: i64, lazy: bool| {
            format!(
                "    merged -> filter(|x: &i64| *x < {bound}i64) -> map(|x: i64| x * {mul}i64) -> {}() -> deferred;\n    deferred = identity::<i64>();\n",
                if lazy { "defer_tick_lazy" } else { "defer_tick" }
            )
        };
        match &self.body {
            Body::Flat => {
                let n_in = self.n_trig + self.lazy_entry as usize;
                if n_in == 1 {
                    s.push_str(&format!("    src0 -> batch() -> {};\n", sink(SINK_MAIN)));
                } else {
                    s.push_str("    merged = union();\n");
                    for k in 0..self.n_trig {
                        s.push_str(&format!("    src{k} -> batch() -> merged;\n"));
                    }
                    if let Some(l) = self.lazy_src() {
                        s.push_str(&format!("    src{l} -> batch_lazy() -> merged;\n"));
                    }
                    s.push_str(&format!("    merged -> {};\n", sink(SINK_MAIN)));
                }
            }
            Body::RootDefer { bound, mul, lazy } => {
                s.push_str("    merged = union() -> tee();\n");
                for k in 0..self.n_trig {
                    s.push_str(&format!("    src{k} -> batch() -> merged;\n"));
                }
                if let Some(l) = self.lazy_src() {
                    s.push_str(&format!("    src{l} -> batch_lazy() -> merged;\n"));
                }
                s.push_str("    deferred -> merged;\n");
                s.push_str(&format!("    merged -> {};\n", sink(SINK_MAIN)));
                s.push_str(&cyc(*bound, *mul, *lazy));
            }
            Body::Nested { bound, mul, lazy, all_iter, lazy_into_nested, inner_sink } => {
                if self.n_trig == 1 {
                    s.push_str("    src0 -> batch() -> root_data;\n    root_data = identity::<i64>();\n");
                } else {
                    for k in 0..self.n_trig {
                        s.push_str(&format!("    src{k} -> batch() -> root_data;\n"));
                    }
                    s.push_str("    root_data = union() -> identity::<i64>();\n");
                }
                if let Some(l) = self.lazy_src() {
                    if *lazy_into_nested {
                        s.push_str(&format!("    src{l} -> batch_lazy() -> lazy_root;\n    lazy_root = identity::<i64>();\n"));
                    } else {
                        s.push_str(&format!("    src{l} -> batch_lazy() -> {};\n", sink(SINK_LAZY_ROOT)));
                    }
                }
                s.push_str("    loop {\n");
                s.push_str("        merged = union() -> tee();\n");
                s.push_str("        root_data -> batch() -> merged;\n");
                if self.lazy_entry && *lazy_into_nested {
                    s.push_str("        lazy_root -> batch_lazy() -> merged;\n");
                }
                s.push_str("        deferred -> merged;\n");
                if *inner_sink {
                    s.push_str(&format!("        merged -> {};\n", sink(SINK_MAIN)));
                }
                for l in cyc(*bound, *mul, *lazy).lines() {
                    s.push_str(&format!("    {l}\n"));
                }
                if *all_iter {
                    s.push_str("        merged -> output;\n");
                }
                s.push_str("    };\n");
                if *all_iter {
                    s.push_str(&format!("    output = all_iterations() -> {};\n", sink(SINK_ALL)));
                }
            }
            Body::NestedMulti { cycles, order, all_iter, inner_sink } => {
                if self.n_trig == 1 {
                    s.push_str("    src0 -> batch() -> root_data;\n    root_data = identity::<i64>();\n");
                } else {
                    for k in 0..self.n_trig {
                        s.push_str(&format!("    src{k} -> batch() -> root_data;\n"));
                    }
                    s.push_str("    root_data = union() -> identity::<i64>();\n");
                }
                if let Some(l) = self.lazy_src() {
                    s.push_str(&format!("    src{l} -> batch_lazy() -> {};\n", sink(SINK_LAZY_ROOT)));
                }
                s.push_str("    loop {\n        merged = union() -> tee();\n        root_data -> batch() -> merged;\n");
                for &k in order {
                    s.push_str(&format!("        deferred{k} -> merged;\n"));
                }
                if *inner_sink {
                    s.push_str(&format!("        merged -> {};\n", sink(SINK_MAIN)));
                }
                for &k in order {
                    let c = &cycles[k];
                    s.push_str(&format!(
                        "        merged -> filter(|x: &i64| x.rem_euclid(3) == {}i64 && *x < {}i64) -> map(|x: i64| x * {}i64) -> {}() -> deferred{k};\n",
                        c.res,
                        c.bound,
                        c.mul,
                        if c.lazy { "defer_tick_lazy" } else { "defer_tick" }
                    ));
                }
                for &k in order {
                    s.push_str(&format!("        deferred{k} = identity::<i64>();\n"));
                }
                if *all_iter {
                    s.push_str("        merged -> output;\n");
                }
                s.push_str("    };\n");
                if *all_iter {
                    s.push_str(&format!("    output = all_iterations() -> {};\n", sink(SINK_ALL)));
                }
            }
        }
        s.push_str("};\n");
        if let Some(k) = self.sibling_src() {
            s.push_str(&format!("loop {{\n    src{k} -> batch() -> {};\n}};\n", sink(SINK_SIBLING)));
        }
        if self.sources_after {
            s.push_str(&srcs);
        }
        s
    }

    pub fn module(&self) -> String {
        let mut s = String::from("#![allow(warnings)]\nuse gd::*;\n\npub fn run(script: &Script) -> RunOut {\n    let log = new_log();\n");
        for k in 0..self.n_sources() {
            s.push_str(&format!("    let (s{k}, r{k}) = dfir_rs::util::unbounded_channel::<i64>();\n"));
        }
        for k in 0..4 {
            s.push_str(&format!("    let lg{k} = log.clone();\n"));
        }
        s.push_str("    let mut df = dfir_rs::dfir_syntax! {\n");
        for l in self.dfir().lines() {
            s.push_str(&format!("        {l}\n"));
        }
        s.push_str("    };\n    let mut ticks: Vec<u64> = Vec::new();\n    for step in &script.steps {\n");
        for k in 0..self.n_sources() {
            s.push_str(&format!("        for v in step.send({k}) {{ s{k}.send(<i64 as FromJ>::from_j(v)).unwrap(); }}\n"));
        }
        s.push_str("        df.run_tick_sync();\n        ticks.push(df.current_tick().0);\n    }\n    drop(df);\n    RunOut { log: take_log(&log), ticks }\n}\n");
        s
    }
}

/// Expected output: per (tick, sink) a list of chunks; the logged sequence must be the
/// concatenation of the chunks in order, each chunk compared as a multiset (one chunk per loop
/// iteration: the interleaving inside an iteration is that of `union`, i.e. unspecified).
pub type Chunks = BTreeMap<(u64, usize), Vec<Vec<i64>>>;

pub struct Model {
    pub chunks: Chunks,
    pub max_iterations: usize,
    pub lazy_only_ticks: usize,
}

pub fn model(c: &LoopCase, script: &[Vec<Vec<i64>>]) -> Model {
    let mut chunks: Chunks = BTreeMap::new();
    let mut deferred: Vec<i64> = vec![]; // data waiting behind defer_tick / defer_tick_lazy
    let mut multi: Vec<Vec<i64>> = vec![vec![]; 3]; // per cycle, for NestedMulti
    let mut max_iterations = 0;
    let mut lazy_only_ticks = 0;
    for (t, tick_in) in script.iter().enumerate() {
        let t = t as u64;
        let get = |k: usize| tick_in.get(k).cloned().unwrap_or_default();
        let trig: Vec<i64> = (0..c.n_trig).flat_map(get).collect();
        let lazyv: Vec<i64> = c.lazy_src().map(get).unwrap_or_default();
        if let Some(k) = c.sibling_src() {
            // "two independent loops do not trigger each other"
            let v = get(k);
            if !v.is_empty() {
                chunks.entry((t, SINK_SIBLING)).or_default().push(v);
            }
        }
        if trig.is_empty() && !lazyv.is_empty() {
            lazy_only_ticks += 1;
        }
        match &c.body {
            Body::Flat => {
                // batch_lazy: "does NOT cause the loop to fire ... If the loop never fires that tick, the data is simply dropped"
                if !trig.is_empty() {
                    let mut m = trig.clone();
                    m.extend(lazyv.iter());
                    chunks.entry((t, SINK_MAIN)).or_default().push(m);
                }
            }
            Body::RootDefer { bound, mul, lazy } => {
                // root loop: fused with the tick, at most one run; fires on a non-lazy entry or on
                // non-lazily deferred data from the previous tick
                let fires = !trig.is_empty() || (!*lazy && !deferred.is_empty());
                if fires {
                    let mut m = trig.clone();
                    m.extend(lazyv.iter());
                    m.extend(deferred.drain(..));
                    deferred = m.iter().filter(|x| **x < *bound).map(|x| x * mul).collect();
                    chunks.entry((t, SINK_MAIN)).or_default().push(m);
                }
            }
            Body::Nested { bound, mul, lazy, all_iter, lazy_into_nested, inner_sink } => {
                if trig.is_empty() {
                    continue; // root does not fire: lazy entry data is dropped, lazily deferred data waits
                }
                if c.lazy_entry && !*lazy_into_nested && !lazyv.is_empty() {
                    chunks.entry((t, SINK_LAZY_ROOT)).or_default().push(lazyv.clone());
                }
                let mut all_acc = vec![];
                let mut entry = trig.clone();
                if *lazy_into_nested {
                    entry.extend(lazyv.iter());
                }
                let mut iterations = 0;
                // the nested loop runs while its non-lazy entry or non-lazily deferred data is non-empty
                let mut first = true;
                loop {
                    let fire = if first { true } else { !*lazy && !deferred.is_empty() };
                    if !fire {
                        break;
                    }
                    iterations += 1;
                    let mut m = if first { std::mem::take(&mut entry) } else { vec![] };
                    first = false;
                    m.extend(deferred.drain(..));
                    deferred = m.iter().filter(|x| **x < *bound).map(|x| x * mul).collect();
                    if *inner_sink {
                        chunks.entry((t, SINK_MAIN)).or_default().push(m.clone());
                    }
                    all_acc.extend(m);
                    if iterations > 64 {
                        break;
                    }
                }
                max_iterations = max_iterations.max(iterations);
                if *all_iter && !all_acc.is_empty() {
                    // "collects output from all loop iterations and emits it outside the loop"
                    chunks.entry((t, SINK_ALL)).or_default().push(all_acc);
                }
            }
            Body::NestedMulti { cycles, all_iter, inner_sink, .. } => {
                if trig.is_empty() {
                    continue;
                }
                if c.lazy_entry && !lazyv.is_empty() {
                    chunks.entry((t, SINK_LAZY_ROOT)).or_default().push(lazyv.clone());
                }
                let mut all_acc = vec![];
                let mut entry = trig.clone();
                let mut iterations = 0;
                let mut first = true;
                loop {
                    // re-runs while ANY non-lazily loop-deferred buffer is non-empty
                    let fire = first || cycles.iter().enumerate().any(|(k, cy)| !cy.lazy && !multi[k].is_empty());
                    if !fire {
                        break;
                    }
                    iterations += 1;
                    let mut m = if first { std::mem::take(&mut entry) } else { vec![] };
                    first = false;
                    for k in 0..cycles.len() {
                        m.extend(multi[k].drain(..));
                    }
                    for (k, cy) in cycles.iter().enumerate() {
                        multi[k] = m.iter().filter(|x| x.rem_euclid(3) == cy.res && **x < cy.bound).map(|x| x * cy.mul).collect();
                    }
                    if *inner_sink {
                        chunks.entry((t, SINK_MAIN)).or_default().push(m.clone());
                    }
                    all_acc.extend(m);
                    if iterations > 64 {
                        break;
                    }
                }
                max_iterations = max_iterations.max(iterations);
                if *all_iter && !all_acc.is_empty() {
                    chunks.entry((t, SINK_ALL)).or_default().push(all_acc);
                }
            }
        }
    }
    Model { chunks, max_iterations, lazy_only_ticks }
}

fn check_chunks(exp: &Chunks, log: &[(u64, usize, serde_json::Value)]) -> Option<String> {
    let mut act: BTreeMap<(u64, usize), Vec<i64>> = BTreeMap::new();
    for (t, s, v) in log {
        act.entry((*t, *s)).or_default().push(v.as_i64().unwrap_or(i64::MIN));
    }
    let keys: BTreeSet<(u64, usize)> = exp.keys().chain(act.keys()).copied().collect();
    for k in keys {
        let e = exp.get(&k).cloned().unwrap_or_default();
        let a = act.get(&k).cloned().unwrap_or_default();
        let total: usize = e.iter().map(|c| c.len()).sum();
        let mut ok = total == a.len();
        if ok {
            let mut pos = 0;
            for ch in &e {
                let mut x = ch.clone();
                let mut y = a[pos..pos + ch.len()].to_vec();
                x.sort();
                y.sort();
                if x != y {
                    ok = false;
                    break;
                }
                pos += ch.len();
            }
        }
        if !ok {
            return Some(format!(
                "tick {} sink {}: the loop model expects the iteration chunks {:?} (each a multiset, in this order) but the compiled program emitted {:?}",
                k.0, k.1, e, a
            ));
        }
    }
    None
}

pub fn gen_case(r: &mut Rng, hint: usize) -> LoopCase {
    let bound = *r.pick(&[6, 20, 50, 100]);
    let mul = *r.pick(&[2, 3, 10]);
    let body = match hint % 9 {
        6..=8 => {
            // 2-3 independent cycles with different life times; at most one lazy (never all)
            let n = 2 + r.below(2);
            let mut res: Vec<i64> = vec![0, 1, 2];
            for i in (1..3).rev() {
                res.swap(i, r.below(i + 1));
            }
            let lazy_at = if hint % 9 == 8 { Some(r.below(n)) } else { None };
            let cycles: Vec<Cyc> = (0..n)
                .map(|k| Cyc {
                    res: res[k],
                    bound: *r.pick(&[5, 30, 200, 1500]),
                    mul: *r.pick(&[4, 7, 10]),
                    lazy: lazy_at == Some(k),
                })
                .collect();
            let mut order: Vec<usize> = (0..n).collect();
            for i in (1..n).rev() {
                order.swap(i, r.below(i + 1));
            }
            let all_iter = r.chance(1, 3);
            Body::NestedMulti { cycles, order, all_iter, inner_sink: !all_iter || r.chance(2, 3) }
        }
        0 => Body::Flat,
        1 | 2 => Body::RootDefer { bound, mul, lazy: hint % 9 == 2 },
        _ => {
            let all_iter = r.chance(1, 2);
            Body::Nested {
                bound,
                mul,
                lazy: r.chance(1, 3),
                all_iter,
                lazy_into_nested: r.chance(1, 2),
                inner_sink: !all_iter || r.chance(2, 3),
            }
        }
    };
    let n_trig = 1 + r.below(2);
    let lazy_entry = r.chance(1, 2) || (matches!(body, Body::Flat) && n_trig == 1 && r.chance(1, 2));
    let mut c = LoopCase {
        n_trig,
        lazy_entry,
        body,
        sources_after: r.chance(1, 2),
        sibling: r.chance(1, 3),
        scripts: vec![],
    };
    for _ in 0..8 {
        let ticks = 1 + r.below(5);
        let mut script = vec![];
        for _ in 0..ticks {
            let mut per = vec![];
            for k in 0..c.n_sources() {
                let is_lazy = Some(k) == c.lazy_src();
                let n = if r.chance(2, 5) && !is_lazy { 0 } else { r.below(4) };
                per.push((0..n).map(|_| r.range(1, 6)).collect::<Vec<i64>>());
            }
            script.push(per);
        }
        c.scripts.push(script);
    }
    c
}

fn wire(script: &[Vec<Vec<i64>>]) -> serde_json::Value {
    json!({"steps": script.iter().map(|t| json!({"send": t, "run": "t"})).collect::<Vec<_>>()})
}

fn kind(c: &LoopCase) -> String {
    match &c.body {
        Body::Flat => "root-flat".into(),
        Body::RootDefer { lazy, .. } => format!("root-defer{}", if *lazy { "-lazy" } else { "" }),
        Body::Nested { lazy, all_iter, .. } => format!(
            "nested{}{}",
            if *lazy { "-lazy" } else { "" },
            if *all_iter { "+all_iterations" } else { "" }
        ),
        Body::NestedMulti { cycles, all_iter, .. } => format!(
            "nested-{}-cycles{}{}",
            cycles.len(),
            if cycles.iter().any(|c| c.lazy) { "-one-lazy" } else { "" },
            if *all_iter { "+all_iterations" } else { "" }
        ),
    }
}

/// Run a list of cases in one batch; returns per case the first failure.
fn run_cases(batch: &str, cases: &[LoopCase]) -> Result<(Vec<Option<(usize, String)>>, BTreeMap<u64, String>, u64, f64), String> {
    let units: Vec<Unit> = cases
        .iter()
        .enumerate()
        .map(|(k, c)| Unit { id: k as u64, source: c.module(), scripts: c.scripts.iter().map(|s| wire(s)).collect() })
        .collect();
    let out = run_batch(batch, &units)?;
    let mut res = vec![None; cases.len()];
    let mut trouble = 0;
    for (k, c) in cases.iter().enumerate() {
        if out.rejected.contains_key(&(k as u64)) {
            continue;
        }
        for si in 0..c.scripts.len() {
            let m = model(c, &c.scripts[si]);
            match out.runs.get(&(k as u64, si)) {
                Some(RunRes::Ok { log, ticks }) => {
                    let expect_ticks: Vec<u64> = (1..=c.scripts[si].len() as u64).collect();
                    let d = check_chunks(&m.chunks, log).or_else(|| {
                        (*ticks != expect_ticks).then(|| format!("tick counters {ticks:?}, expected {expect_ticks:?}"))
                    });
                    if let Some(d) = d {
                        if res[k].is_none() {
                            res[k] = Some((si, d));
                        }
                    }
                }
                Some(RunRes::Panic(p)) => {
                    if res[k].is_none() {
                        res[k] = Some((si, format!("compiled program panicked: {p}")));
                    }
                }
                _ => trouble += 1,
            }
        }
    }
    Ok((res, out.rejected, trouble, out.build_s))
}

fn describe(c: &LoopCase, si: usize, d: &str) -> String {
    format!("{d}\nprogram:\n{}script #{si}: {}", c.dfir(), wire(&c.scripts[si]))
}

pub fn run(ctx: &mut Ctx) {
    ctx.rule = "Cases are (loop skeleton, per-tick inputs): root-level loops with 1-2 batch() entries and an optional \
batch_lazy() entry (flat body; body with a union/tee/filter/map/defer_tick or defer_tick_lazy cycle), nested loops with such \
a cycle (bounding filter x < B, multiplier m) or with 2-3 independent cycles of different life times in random \
declaration order (optionally one of them lazy), optional batch_lazy() entry into the nested loop, optional all_iterations() \
egress, an optional independent sibling root loop, sources declared before or after the loop text; inputs over 1-5 ticks \
with empty ticks and lazy-only ticks. Oracle: loop model (root loop at most once per tick, iff a non-lazy entry or \
non-lazily tick-deferred data is non-empty; nested loop iterates while its non-lazy entry or non-lazily deferred data is \
non-empty; defer_tick inside the nested loop delays by one iteration; lazy entries/defers never trigger, lazy entry data is \
dropped when the loop does not fire, lazily deferred data waits; all_iterations collects across iterations). The log of \
each (tick, sink) must be the concatenation of the per-iteration chunks (each compared as a multiset). Non-trivial: \
a nested loop ran >= 2 iterations in some tick, or some tick carried only lazy data."
        .into();
    ctx.assume("items are >= 1 and the cycle multiplies by m >= 2 below a bound, so every loop terminates");
    if ctx.is_replay() {
        ctx.check_all::<LoopCase, _, _>(SUB, Vec::<LoopCase>::new(), |case: &LoopCase, obs: &mut Obs| {
            let (res, rejected, _, _) =
                run_cases("C26-replay", std::slice::from_ref(case)).map_err(|e| Fail::new("infrastructure", e))?;
            obs.nontrivial(true);
            if let Some(m) = rejected.get(&0) {
                return Err(Fail::new("replay:rustc-rejected", m.clone()));
            }
            match &res[0] {
                None => Ok(()),
                Some((si, d)) => Err(Fail::new(format!("loop-mismatch:{}", kind(case)), describe(case, *si, d))),
            }
        });
        return;
    }
    let tier = ctx.tier();
    let n = tier.pick(48, 1000);
    let chunk = tier.pick(48, 250);
    ctx.floor = tier.pick(30, 600);
    let mut rng = Rng::new(ctx.seed_for(SUB));
    let batch = format!("C26-{}", tier.name());
    let mut seen = BTreeSet::new();
    let mut generated = 0u64;
    let mut rejected_n = 0u64;
    let mut build_s = 0.0;
    let mut remaining = n;
    let mut hint = 0usize;
    let mut failures: Vec<(LoopCase, usize, String)> = vec![];
    let mut rejected_samples = vec![];
    while remaining > 0 {
        let this = remaining.min(chunk);
        remaining -= this;
        let mut cases = vec![];
        let mut guard = 0;
        while cases.len() < this && guard < this * 30 {
            guard += 1;
            hint += 1;
            let c = gen_case(&mut rng, hint);
            let mut key = c.clone();
            key.scripts.clear();
            if !seen.insert(hash64(&key)) && guard < this * 10 {
                continue;
            }
            generated += 1;
            cases.push(c);
        }
        let (res, rejected, trouble, b) = match run_cases(&batch, &cases) {
            Ok(x) => x,
            Err(e) => {
                ctx.inconclusive(format!("batch infrastructure failure: {e}"));
                break;
            }
        };
        build_s += b;
        if trouble > 0 {
            ctx.inconclusive(format!("{trouble} program runs hung or produced no output"));
        }
        for (k, c) in cases.iter().enumerate() {
            if let Some(m) = rejected.get(&(k as u64)) {
                rejected_n += 1;
                if rejected_samples.len() < 3 {
                    rejected_samples.push(json!({"program": c.dfir(), "message": m}));
                }
                continue;
            }
            for si in 0..c.scripts.len() {
                let m = model(c, &c.scripts[si]);
                let mut obs = Obs::default();
                obs.nontrivial(m.max_iterations >= 2 || m.lazy_only_ticks > 0);
                obs.class(format!("skeleton:{}", kind(c)));
                if m.max_iterations >= 2 {
                    obs.class(format!("iterations:{}", m.max_iterations.min(6)));
                }
                if m.lazy_only_ticks > 0 {
                    obs.class("lazy-only-tick");
                }
                let h = hash64(&(&c.n_trig, &c.lazy_entry, &c.body, &c.sources_after, &c.sibling, &c.scripts[si]));
                ctx.record(SUB, h, &obs, || json!({"program": c.dfir(), "script": wire(&c.scripts[si])}));
            }
            if let Some((si, d)) = &res[k] {
                failures.push((c.clone(), *si, d.clone()));
            }
        }
        if !failures.is_empty() {
            break;
        }
    }
    let mut reported = BTreeSet::new();
    for (c, si, d) in failures {
        let sig = format!("loop-mismatch:{}", kind(&c));
        if !reported.insert(sig.clone()) || reported.len() > 3 {
            continue;
        }
        // shrink: keep only the failing script, drop trailing ticks that are not needed
        let mut small = c.clone();
        small.scripts = vec![c.scripts[si].clone()];
        ctx.report(SUB, &Fail::new(sig, describe(&c, si, &d)), serde_json::to_value(&small).unwrap());
    }
    ctx.count_excluded("generator-typing-bug(rustc rejected)", rejected_n);
    ctx.extra.insert(
        "pipeline".into(),
        json!({"cases_generated": generated, "rustc_rejected": rejected_n, "rustc_rejected_samples": rejected_samples, "build_s": build_s}),
    );
    if rejected_n > 0 {
        ctx.inconclusive(format!("{rejected_n} of {generated} loop programs were rejected by rustc (template programs are expected to compile)"));
    }
}
