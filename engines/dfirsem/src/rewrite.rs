//! Semantics-preserving shape rewrites of IR programs (C22): extra `identity()` / `handoff()`,
//! `tee()` with a `null()` branch (forces push), `union()` with an empty `source_iter` (forces
//! pull), moving a unary operator across a `tee()`, and statement reordering.

use crate::analysis::{analyze, Analysis};
use crate::gen::Rng;
use crate::ir::*;
use std::collections::BTreeSet;

#[derive(Clone)]
struct GNode {
    op: Op,
    ins: Vec<(usize, usize)>,
    origin: Option<usize>,
    dead: bool,
}

struct G {
    nodes: Vec<GNode>,
    sources: Vec<Ty>,
}

impl G {
    fn from_prog(p: &Prog) -> G {
        G {
            nodes: p
                .nodes
                .iter()
                .enumerate()
                .map(|(i, n)| GNode {
                    op: n.op.clone(),
                    ins: n.ins.iter().map(|e| (e.node, e.port)).collect(),
                    origin: Some(i),
                    dead: false,
                })
                .collect(),
            sources: p.sources.clone(),
        }
    }
    fn add(&mut self, op: Op, ins: Vec<(usize, usize)>, origin: Option<usize>) -> usize {
        self.nodes.push(GNode { op, ins, origin, dead: false });
        self.nodes.len() - 1
    }
    /// Topological linearisation (back edges of cycle-closing defer_ticks are not dependencies).
    fn linearise(&self) -> Option<(Prog, Vec<Option<usize>>, Vec<usize>)> {
        let n = self.nodes.len();
        let mut placed = vec![usize::MAX; n];
        let mut order = vec![];
        let mut done = BTreeSet::new();
        loop {
            let mut progressed = false;
            for i in 0..n {
                if self.nodes[i].dead || done.contains(&i) {
                    continue;
                }
                let back = matches!(self.nodes[i].op, Op::DeferTick { back: Some(_), .. });
                let ready = back || self.nodes[i].ins.iter().all(|(j, _)| done.contains(j));
                if ready {
                    placed[i] = order.len();
                    order.push(i);
                    done.insert(i);
                    progressed = true;
                }
            }
            if !progressed {
                break;
            }
        }
        if order.len() != self.nodes.iter().filter(|x| !x.dead).count() {
            return None;
        }
        let mut nodes = vec![];
        let mut origin = vec![];
        for &i in &order {
            let g = &self.nodes[i];
            let mut op = g.op.clone();
            if let Op::RefMap { target, .. } = &mut op {
                *target = placed[*target];
            }
            nodes.push(Node {
                op,
                ins: g.ins.iter().map(|(j, port)| Edge { node: placed[*j], port: *port }).collect(),
            });
            origin.push(g.origin);
        }
        Some((Prog { nodes, sources: self.sources.clone(), stmt_order: None }, origin, placed))
    }
}

#[derive(Clone, Debug)]
pub struct Variant {
    pub prog: Prog,
    /// variant node index -> base node index (None for inserted nodes)
    pub origin: Vec<Option<usize>>,
    pub desc: Vec<String>,
}

fn unary_movable(op: &Op) -> bool {
    matches!(
        op,
        Op::Map(_)
            | Op::Filter(_)
            | Op::FilterMap(_)
            | Op::FlatMap(_)
            | Op::Flatten
            | Op::Inspect
            | Op::Identity { .. }
            | Op::Enumerate { .. }
            | Op::Sort
            | Op::SortByKey(_)
            | Op::Fold { .. }
            | Op::Reduce { .. }
            | Op::FoldKeyed { .. }
            | Op::ReduceKeyed { .. }
            | Op::Scan { .. }
            | Op::Unique { .. }
            | Op::Persist
            | Op::MultisetDelta
            | Op::LatticeFold { .. }
            | Op::LatticeReduce { .. }
    )
}

/// Apply `k` random rewrites; `None` if no valid variant could be produced.
pub fn make_variant(r: &mut Rng, base: &Prog, a: &Analysis, k: usize) -> Option<Variant> {
    if base.nodes.iter().any(|n| matches!(n.op, Op::RefMap { .. })) {
        return None;
    }
    for _attempt in 0..12 {
        let mut g = G::from_prog(base);
        let mut desc = vec![];
        let mut ok = true;
        for _ in 0..k {
            if !apply_one(r, &mut g, base, a, &mut desc) {
                ok = false;
                break;
            }
        }
        if !ok || desc.is_empty() {
            continue;
        }
        let Some((mut prog, origin, _)) = g.linearise() else { continue };
        if r.chance(1, 3) {
            let mut o: Vec<usize> = (0..prog.nodes.len()).collect();
            for i in (1..o.len()).rev() {
                o.swap(i, r.below(i + 1));
            }
            prog.stmt_order = Some(o);
            desc.push("statements shuffled".into());
        }
        if analyze(&prog).is_ok() && prog != *base && !crate::analysis::short_circuit_hazard(&prog) {
            return Some(Variant { prog, origin, desc });
        }
    }
    None
}

fn apply_one(r: &mut Rng, g: &mut G, base: &Prog, a: &Analysis, desc: &mut Vec<String>) -> bool {
    // candidate edges: (consumer, input index) among live nodes
    let mut edges = vec![];
    for (c, n) in g.nodes.iter().enumerate() {
        if n.dead {
            continue;
        }
        for k in 0..n.ins.len() {
            edges.push((c, k));
        }
    }
    if edges.is_empty() {
        return false;
    }
    let kind = r.below(5);
    let (c, k) = *r.pick(&edges);
    let src = g.nodes[c].ins[k];
    // item type on that edge (only needed for the union rewrite): analyse the current graph
    let ty = if kind == 3 {
        match g.linearise() {
            Some((prog, _, placed)) => match crate::analysis::infer(&prog) {
                Ok(an) => an.outs.get(placed[src.0]).and_then(|o| o.get(src.1)).map(|e| e.ty.clone()),
                Err(_) => None,
            },
            None => None,
        }
    } else {
        None
    };
    let _ = (base, a);
    match kind {
        0 => {
            let n = g.add(Op::Identity { typed: r.chance(1, 2) }, vec![src], None);
            g.nodes[c].ins[k] = (n, 0);
            desc.push(format!("identity() inserted before input {k} of node {c}"));
            true
        }
        1 => {
            let n = g.add(Op::Handoff, vec![src], None);
            g.nodes[c].ins[k] = (n, 0);
            desc.push(format!("handoff() inserted before input {k} of node {c}"));
            true
        }
        2 => {
            let t = g.add(Op::Tee { n: 2 }, vec![src], None);
            g.nodes[c].ins[k] = (t, 0);
            g.add(Op::Null, vec![(t, 1)], None);
            desc.push(format!("tee() with a null() branch inserted before input {k} of node {c}"));
            true
        }
        3 => {
            let Some(ty) = ty else { return false };
            if !ty.is_plain() || ty == Ty::Unit {
                return false;
            }
            let e = g.add(Op::SrcIter { items: vec![], ty }, vec![], None);
            let ins = if r.chance(1, 2) { vec![src, (e, 0)] } else { vec![(e, 0), src] };
            let u = g.add(Op::Union { n: 2 }, ins, None);
            g.nodes[c].ins[k] = (u, 0);
            desc.push(format!("union() with an empty source_iter inserted before input {k} of node {c}"));
            true
        }
        _ => {
            // move a unary operator across the tee that consumes it
            let tees: Vec<usize> = (0..g.nodes.len())
                .filter(|&t| {
                    !g.nodes[t].dead
                        && matches!(g.nodes[t].op, Op::Tee { .. })
                        && {
                            let (u, _) = g.nodes[t].ins[0];
                            unary_movable(&g.nodes[u].op) && g.nodes[u].ins.len() == 1 && consumers(g, u).len() == 1
                        }
                })
                .collect();
            if tees.is_empty() {
                return false;
            }
            let t = *r.pick(&tees);
            let (u, _) = g.nodes[t].ins[0];
            let uop = g.nodes[u].op.clone();
            let uorigin = g.nodes[u].origin;
            let uin = g.nodes[u].ins[0];
            g.nodes[t].ins[0] = uin;
            g.nodes[u].dead = true;
            for (cc, kk) in consumers(g, t) {
                let port = g.nodes[cc].ins[kk].1;
                let copy = g.add(uop.clone(), vec![(t, port)], uorigin);
                g.nodes[cc].ins[kk] = (copy, 0);
            }
            desc.push(format!("{} moved across tee (node {t}) into every branch", uop.name()));
            true
        }
    }
}

fn consumers(g: &G, n: usize) -> Vec<(usize, usize)> {
    let mut v = vec![];
    for (c, node) in g.nodes.iter().enumerate() {
        if node.dead {
            continue;
        }
        for (k, (j, _)) in node.ins.iter().enumerate() {
            if *j == n {
                v.push((c, k));
            }
        }
    }
    v
}

/// Insert `tee()` with a `null()` branch in front of input 0 of node `idx` (forces the operator
/// onto the push side of its subgraph). Used by the per-operator cell programs of C21.
pub fn force_push(base: &Prog, idx: usize) -> Option<Prog> {
    let mut g = G::from_prog(base);
    let src = *g.nodes[idx].ins.first()?;
    let t = g.add(Op::Tee { n: 2 }, vec![src], None);
    g.nodes[idx].ins[0] = (t, 0);
    g.add(Op::Null, vec![(t, 1)], None);
    let (prog, _, _) = g.linearise()?;
    analyze(&prog).ok()?;
    Some(prog)
}
