//! Program IR for the DFIR semantics engine: a small typed dataflow graph over the item universe
//! `i64`, `(i64, i64)` (plus the transient "wide" types operators produce), with fixed closure
//! menus. Everything here is plain serde data so that a replay file names the exact program.
//!
//! This file contains NO semantics of DFIR operators beyond their *typing* (which ports exist,
//! what item type comes out). The semantics live in `interp.rs` (reference interpreter, written
//! from the operator documentation) and, on the other side, in the real `dfir_syntax!` macro.

use serde::{Deserialize, Serialize};
use std::collections::BTreeSet;

/// Modulus used by the "mixing" closures so that values stay bounded.
pub const M: i64 = 1_000_003;

#[derive(Clone, Debug, PartialEq, Eq, Hash, PartialOrd, Ord, Serialize, Deserialize)]
pub enum Ty {
    /// `i64`
    I,
    /// `usize`
    U,
    /// tuple
    T(Vec<Ty>),
    /// `Vec<T>`
    V(Box<Ty>),
    /// `itertools::EitherOrBoth<A, B>`
    Eob(Box<Ty>, Box<Ty>),
    /// `lattices::Max<i64>`
    MaxI,
    /// `lattices::set_union::SetUnionHashSet<i64>`
    SetI,
    /// `()`
    Unit,
    /// `gd::Sh`: the support library's `#[derive(DemuxEnum)]` enum `A(i64) | B(i64, i64) | C { k, v }`
    Sh,
}

impl Ty {
    pub fn p() -> Ty {
        Ty::T(vec![Ty::I, Ty::I])
    }
    pub fn is_p(&self) -> bool {
        *self == Ty::p()
    }
    pub fn is_base(&self) -> bool {
        matches!(self, Ty::I) || self.is_p()
    }
    pub fn pair(a: Ty, b: Ty) -> Ty {
        Ty::T(vec![a, b])
    }
    /// Rust spelling of the type.
    pub fn rust(&self) -> String {
        match self {
            Ty::I => "i64".into(),
            Ty::U => "usize".into(),
            Ty::Unit => "()".into(),
            Ty::T(v) => {
                let mut s = String::from("(");
                for (i, t) in v.iter().enumerate() {
                    if i > 0 {
                        s.push_str(", ");
                    }
                    s.push_str(&t.rust());
                }
                if v.len() == 1 {
                    s.push(',');
                }
                s.push(')');
                s
            }
            Ty::V(t) => format!("Vec<{}>", t.rust()),
            Ty::Eob(a, b) => format!(
                "dfir_rs::itertools::EitherOrBoth<{}, {}>",
                a.rust(),
                b.rust()
            ),
            Ty::MaxI => "dfir_rs::lattices::Max<i64>".into(),
            Ty::SetI => "dfir_rs::lattices::set_union::SetUnionHashSet<i64>".into(),
            Ty::Sh => "gd::Sh".into(),
        }
    }
    /// Only made of integers and tuples (totally ordered, hashable, cloneable, comparable the same
    /// way in the interpreter and in Rust).
    pub fn is_plain(&self) -> bool {
        match self {
            Ty::I | Ty::U => true,
            Ty::Unit => true,
            Ty::T(v) => v.iter().all(|t| t.is_plain()),
            _ => false,
        }
    }
    /// Key/value view: `(K, V)` two-tuples.
    pub fn kv(&self) -> Option<(&Ty, &Ty)> {
        match self {
            Ty::T(v) if v.len() == 2 => Some((&v[0], &v[1])),
            _ => None,
        }
    }
    pub fn depth(&self) -> usize {
        match self {
            Ty::T(v) => 1 + v.iter().map(|t| t.depth()).max().unwrap_or(0),
            Ty::V(t) => 1 + t.depth(),
            Ty::Eob(a, b) => 1 + a.depth().max(b.depth()),
            _ => 0,
        }
    }
    pub fn leaves(&self) -> usize {
        match self {
            Ty::T(v) => v.iter().map(|t| t.leaves()).sum(),
            Ty::Unit => 0,
            _ => 1,
        }
    }
}

/// Run-time values of the interpreter (and the decoded form of what the compiled program logs).
#[derive(Clone, Debug, PartialEq, Eq, Hash, PartialOrd, Ord, Serialize, Deserialize)]
pub enum Val {
    I(i64),
    T(Vec<Val>),
    V(Vec<Val>),
    L(Box<Val>),
    R(Box<Val>),
    B(Box<Val>, Box<Val>),
    S(BTreeSet<Val>),
    Mx(i64),
}

impl Val {
    pub fn p(a: i64, b: i64) -> Val {
        Val::T(vec![Val::I(a), Val::I(b)])
    }
    pub fn int(&self) -> i64 {
        match self {
            Val::I(x) => *x,
            Val::Mx(x) => *x,
            _ => panic!("interpreter typing bug: expected int, got {self:?}"),
        }
    }
    pub fn tup(&self) -> &Vec<Val> {
        match self {
            Val::T(v) => v,
            _ => panic!("interpreter typing bug: expected tuple, got {self:?}"),
        }
    }
    pub fn kv(&self) -> (&Val, &Val) {
        let t = self.tup();
        assert!(t.len() == 2, "interpreter typing bug: expected pair");
        (&t[0], &t[1])
    }
    /// all integer leaves, left to right
    pub fn leaves(&self, out: &mut Vec<i64>) {
        match self {
            Val::I(x) | Val::Mx(x) => out.push(*x),
            Val::T(v) | Val::V(v) => v.iter().for_each(|x| x.leaves(out)),
            Val::L(a) | Val::R(a) => a.leaves(out),
            Val::B(a, b) => {
                a.leaves(out);
                b.leaves(out)
            }
            Val::S(s) => s.iter().for_each(|x| x.leaves(out)),
        }
    }
    pub fn max_abs(&self) -> i64 {
        // the bottom of Max<i64> (i64::MIN inside the lattice wrapper) is a legal, inert value
        if let Val::Mx(i64::MIN) = self {
            return 0;
        }
        let mut l = vec![];
        self.leaves(&mut l);
        l.iter().map(|x| x.saturating_abs()).max().unwrap_or(0)
    }
    /// The JSON encoding used on the wire between the batch binary and the host (see the
    /// generated `support.rs`): ints are numbers, tuples arrays, the rest tagged objects.
    pub fn to_json(&self) -> serde_json::Value {
        use serde_json::json;
        match self {
            Val::I(x) => json!(x),
            Val::T(v) => serde_json::Value::Array(v.iter().map(|x| x.to_json()).collect()),
            Val::V(v) => json!({"v": v.iter().map(|x| x.to_json()).collect::<Vec<_>>()}),
            Val::L(a) => json!({"l": a.to_json()}),
            Val::R(a) => json!({"r": a.to_json()}),
            Val::B(a, b) => json!({"b": [a.to_json(), b.to_json()]}),
            Val::S(s) => json!({"s": s.iter().map(|x| x.to_json()).collect::<Vec<_>>()}),
            Val::Mx(x) => json!({"m": x}),
        }
    }
    pub fn from_json(j: &serde_json::Value) -> Option<Val> {
        use serde_json::Value as J;
        Some(match j {
            J::Number(n) => Val::I(n.as_i64()?),
            J::Array(a) => Val::T(a.iter().map(Val::from_json).collect::<Option<Vec<_>>>()?),
            J::Object(o) => {
                let (k, v) = o.iter().next()?;
                match k.as_str() {
                    "v" => Val::V(
                        v.as_array()?
                            .iter()
                            .map(Val::from_json)
                            .collect::<Option<Vec<_>>>()?,
                    ),
                    "l" => Val::L(Box::new(Val::from_json(v)?)),
                    "r" => Val::R(Box::new(Val::from_json(v)?)),
                    "b" => {
                        let a = v.as_array()?;
                        Val::B(
                            Box::new(Val::from_json(&a[0])?),
                            Box::new(Val::from_json(&a[1])?),
                        )
                    }
                    "s" => Val::S(
                        v.as_array()?
                            .iter()
                            .map(Val::from_json)
                            .collect::<Option<BTreeSet<_>>>()?,
                    ),
                    "m" => Val::Mx(v.as_i64()?),
                    _ => return None,
                }
            }
            _ => return None,
        })
    }
    /// Rust literal of this value at type `ty` (for `source_iter`).
    pub fn rust_lit(&self, ty: &Ty) -> String {
        match (self, ty) {
            (Val::I(x), Ty::I) => format!("{x}i64"),
            (Val::I(x), Ty::U) => format!("{x}usize"),
            (Val::T(v), Ty::T(ts)) => {
                let mut s = String::from("(");
                for (i, (x, t)) in v.iter().zip(ts).enumerate() {
                    if i > 0 {
                        s.push_str(", ");
                    }
                    s.push_str(&x.rust_lit(t));
                }
                if v.len() == 1 {
                    s.push(',');
                }
                s.push(')');
                s
            }
            _ => panic!("no literal for {self:?} at {ty:?}"),
        }
    }
}

#[derive(Clone, Copy, Debug, PartialEq, Eq, Hash, PartialOrd, Ord, Serialize, Deserialize)]
pub enum Pers {
    Tick,
    Static,
}

/// The persistence arguments as written: 0, 1 or N lifetimes. Resolution (documented in `join`):
/// none = all `'tick`; one = applies to every input; N = one per input.
pub fn resolve_pers(p: &[Pers], n: usize) -> Vec<Pers> {
    match p.len() {
        0 => vec![Pers::Tick; n],
        1 => vec![p[0]; n],
        _ => {
            assert_eq!(p.len(), n);
            p.to_vec()
        }
    }
}

pub fn pers_rust(p: &[Pers]) -> String {
    if p.is_empty() {
        return String::new();
    }
    let v: Vec<&str> = p
        .iter()
        .map(|x| match x {
            Pers::Tick => "'tick",
            Pers::Static => "'static",
        })
        .collect();
    format!("::<{}>", v.join(", "))
}

pub fn pers_label(p: &[Pers]) -> String {
    if p.is_empty() {
        return "default".into();
    }
    p.iter()
        .map(|x| match x {
            Pers::Tick => "tick",
            Pers::Static => "static",
        })
        .collect::<Vec<_>>()
        .join(",")
}

// ---------------------------------------------------------------------------------------------
// closure menus
// ---------------------------------------------------------------------------------------------

#[derive(Clone, Debug, PartialEq, Eq, Hash, Serialize, Deserialize)]
pub enum MapFn {
    /// I -> I: `x + c`
    AddC(i64),
    /// I -> I: `(x * a) % m`
    MulMod(i64, i64),
    /// I -> I: `-x`
    Neg,
    /// I -> I: `x / 2`
    Half,
    /// I -> P: `(x % m, x)`
    KeyMod(i64),
    /// I -> P: `(x, x)`
    Dup,
    /// P -> P: `(v, k)`
    Swap,
    /// P -> P: `(v % m, k)`
    SwapMod(i64),
    /// P -> P: `(k, v + c)`
    AddV(i64),
    /// P -> P: `(k % m, v)`
    KeyModP(i64),
    /// P -> I
    Fst,
    /// P -> I
    Snd,
    /// P -> I: `k * 7 + v`
    Comb,
    /// any plain/wide type -> I: mix all integer leaves
    NormI,
    /// any plain/wide type -> P: (first leaf, mix of the rest)
    NormP,
    /// T -> Vec<T>: `vec![x; n]` copies with n = 2
    ToVec2,
    /// I -> Vec<I>: `(0..x.rem_euclid(3)).collect()`
    ToRangeVec,
    /// I -> Max<i64>
    ToMax,
    /// Max<i64> -> I
    FromMax,
    /// I -> SetUnionHashSet<i64> (singleton set)
    ToSet,
    /// P -> (i64, Max<i64>): `(k, Max::new(v))`
    KeyMax,
    /// I -> gd::Sh: `x mod 3`: 0 => A(x), 1 => B(x, x + 1), 2 => C { k: x, v: x * 2 }
    ToShape,
}

#[derive(Clone, Debug, PartialEq, Eq, Hash, Serialize, Deserialize)]
pub enum Pred {
    /// I: `x % 2 == 0`
    Even,
    /// I: `x % 2 != 0`
    Odd,
    /// I: `x < c`
    Lt(i64),
    /// I: `x != c`
    Ne(i64),
    /// P: `k % 2 == 0`
    KeyEven,
    /// P: `v < c`
    ValLt(i64),
    /// P: `k < v`
    KLtV,
}

#[derive(Clone, Debug, PartialEq, Eq, Hash, Serialize, Deserialize)]
pub enum FmFn {
    /// I -> I: even => Some(x / 2)
    HalfEven,
    /// P -> I: k <= v => Some(v - k)
    Diff,
    /// P -> P: v even => Some((k, v / 2))
    HalfV,
}

#[derive(Clone, Debug, PartialEq, Eq, Hash, Serialize, Deserialize)]
pub enum FlatFn {
    /// I -> I: `[x, x + 1]`
    Two,
    /// I -> I: `0..x.rem_euclid(3)`
    Range,
    /// P -> I: `[k, v]`
    Both,
    /// P -> P: `[(k, v), (v, k)]`
    Mirror,
}

#[derive(Clone, Debug, PartialEq, Eq, Hash, Serialize, Deserialize)]
pub enum KeyFn {
    /// the whole item (injective)
    Whole,
    /// P: by first component
    K,
    /// P: by second component
    V,
}

#[derive(Clone, Debug, PartialEq, Eq, Hash, Serialize, Deserialize)]
pub enum FoldFn {
    /// I items, acc i64: `*acc += x` (commutative)
    Sum,
    /// any item, acc i64: `*acc += 1` (commutative)
    Count,
    /// I items, acc i64 (init i64::MIN/2 is avoided: init = -1_000_000): max (commutative)
    Max,
    /// I items, acc i64: `*acc = (*acc * 3 + x) % M` (order sensitive)
    Poly,
    /// any item T, acc Vec<T>: push (order sensitive)
    Push,
    /// P items, acc (i64,i64): componentwise sum (commutative)
    SumP,
    /// P items, acc i64: `*acc = (*acc * 3 + k * 5 + v) % M` (order sensitive)
    PolyP,
}

#[derive(Clone, Debug, PartialEq, Eq, Hash, Serialize, Deserialize)]
pub enum RedFn {
    /// I: sum (commutative)
    Sum,
    /// plain types: max (commutative)
    Max,
    /// plain types: min (commutative)
    Min,
    /// any: keep the first (order sensitive)
    First,
    /// any: keep the last (order sensitive)
    Last,
    /// I: `*acc = (*acc * 3 + x) % M` (order sensitive)
    Poly,
    /// P: componentwise sum (commutative)
    SumP,
}

#[derive(Clone, Debug, PartialEq, Eq, Hash, Serialize, Deserialize)]
pub enum ScanFn {
    /// I -> I: running sum, never terminates
    RunSum,
    /// I -> I: running sum, `None` once the sum exceeds c
    SumUntil(i64),
    /// P -> P: `(k, running sum of v)`
    RunKeyed,
}

#[derive(Clone, Debug, PartialEq, Eq, Hash, Serialize, Deserialize)]
pub enum PartFn {
    /// I: `x.rem_euclid(n)`; P: `k.rem_euclid(n)`
    Mod,
    /// I: `x < c` -> 0 else 1 (remaining ports unused); P: on v
    Lt(i64),
}

/// What a reference holder does with `#target` (C23 / C25 templates).
#[derive(Clone, Debug, PartialEq, Eq, Hash, Serialize, Deserialize)]
pub enum RefFn {
    /// item I, singleton I: emits `(x, *#t)`
    PairWith,
    /// item I, singleton I: emits `x + *#t`
    Add,
    /// item I, handoff of I: emits `(x, #t.len())`
    Len,
    /// item I, handoff of I: emits `(x, sum of #t)`
    SumBuf,
    /// WRITER, item I, singleton I: `*t = (*t * a + x) % M`; emits x (order sensitive)
    MulAdd(i64),
    /// WRITER, item I, handoff of I: `t.push(x)`; emits x
    Push,
    /// WRITER, item I, handoff of I: `t.retain(|y| *y != x)`; emits x
    Retain,
}

impl RefFn {
    pub fn is_write(&self) -> bool {
        matches!(self, RefFn::MulAdd(_) | RefFn::Push | RefFn::Retain)
    }
}

#[derive(Clone, Debug, PartialEq, Eq, Hash, Serialize, Deserialize)]
pub enum Op {
    // ---- sources
    /// `source_stream(r<src>)`
    SrcStream { src: usize, ty: Ty },
    /// `source_iter(vec![...])`
    SrcIter { items: Vec<Val>, ty: Ty },
    // ---- stateless unary
    Map(MapFn),
    Filter(Pred),
    FilterMap(FmFn),
    FlatMap(FlatFn),
    Flatten,
    Inspect,
    /// `identity()` or `identity::<T>()`
    Identity { typed: bool },
    Enumerate { pers: Vec<Pers> },
    Sort,
    SortByKey(KeyFn),
    // ---- pseudo operators
    Handoff,
    Singleton,
    Optional,
    /// `map(|x| ... #{group} [mut] target ...)`: a reference holder (reader or writer)
    RefMap {
        target: usize,
        f: RefFn,
        #[serde(default)]
        group: Option<u32>,
    },
    // ---- multi-output
    Tee { n: usize },
    Unzip,
    Partition { f: PartFn, n: usize },
    // ---- multi-input
    Union { n: usize },
    Chain,
    ChainFirstN { n: usize },
    Zip { pers: Vec<Pers> },
    ZipLongest { pers: Vec<Pers> },
    Join { pers: Vec<Pers>, multiset: bool },
    CrossJoin { pers: Vec<Pers>, multiset: bool },
    AntiJoin { pers: Vec<Pers> },
    Difference { pers: Vec<Pers> },
    CrossSingleton { pers: Vec<Pers> },
    JoinMultisetHalf { pers: Vec<Pers> },
    /// join_fused(lhs, rhs): side aggregators; `None` = plain multiset side (join_fused_lhs/rhs)
    JoinFused { pers: Vec<Pers>, lhs: Option<FusedAgg>, rhs: Option<FusedAgg> },
    DeferSignal,
    // ---- stateful unary
    Fold { pers: Vec<Pers>, f: FoldFn, replay: bool },
    Reduce { pers: Vec<Pers>, f: RedFn, replay: bool },
    FoldKeyed { pers: Vec<Pers>, f: FoldFn },
    ReduceKeyed { pers: Vec<Pers>, f: RedFn },
    Scan { pers: Vec<Pers>, f: ScanFn },
    Unique { pers: Vec<Pers> },
    Persist,
    MultisetDelta,
    /// `defer_tick()` / `defer_tick_lazy()`. `back = Some(ty)`: the input edge may refer to a
    /// later node (a cycle through the tick delay); `ty` is the item type flowing around it.
    DeferTick { lazy: bool, back: Option<Ty> },
    LatticeFold { pers: Vec<Pers> },
    LatticeReduce { pers: Vec<Pers> },
    /// `state::<'p, Max<i64>>()`: outputs [items], [state]
    State { pers: Vec<Pers> },
    /// `state_by::<'p, Max<i64>>(|x: i64| Max::new(x), Default::default)`: i64 items, outputs [items], [state]
    StateBy { pers: Vec<Pers> },
    /// `_lattice_fold_batch::<L>()`: inputs [input] lattice items, [signal] anything
    LatticeFoldBatch,
    /// `_lattice_join_fused_join::<'a, 'b, Max<i64>, Max<i64>>()` followed by the revealing map of
    /// its documentation: inputs (i64, Max<i64>), output (i64, (i64, i64))
    LatticeJoinFused { pers: Vec<Pers> },
    /// `demux_enum::<gd::Sh>()`: outputs [A] (i64,), [B] (i64, i64), [C] (i64, i64)
    DemuxEnum,
    /// `initialize()`: a single `()` in the first tick
    Initialize,
    // ---- sinks
    ForEach { sink: usize },
    Null,
}

#[derive(Clone, Debug, PartialEq, Eq, Hash, Serialize, Deserialize)]
pub enum FusedAgg {
    /// `Reduce::new(|a, b| *a += b)`
    ReduceSum,
    /// `Reduce::new(|a, b| *a = (*a * 3 + b) % M)` (order sensitive)
    ReducePoly,
    /// `Fold::new(|| 0, |a, b| *a += b)`
    FoldSum,
    /// `FoldFrom::new(|x| x + 3, |a, b| *a += b)`
    FoldFromSum,
}

/// An input edge: output `port` of node `node`.
#[derive(Clone, Copy, Debug, PartialEq, Eq, Hash, PartialOrd, Ord, Serialize, Deserialize)]
pub struct Edge {
    pub node: usize,
    pub port: usize,
}

#[derive(Clone, Debug, PartialEq, Eq, Hash, Serialize, Deserialize)]
pub struct Node {
    pub op: Op,
    pub ins: Vec<Edge>,
}

#[derive(Clone, Debug, PartialEq, Eq, Hash, Serialize, Deserialize)]
pub struct Prog {
    /// Nodes; every input edge refers to an earlier node, except inputs of `DeferTick` nodes,
    /// which may refer to any node (cycles are only legal through a tick delay).
    pub nodes: Vec<Node>,
    /// item types of the external `source_stream` inputs, by source index
    pub sources: Vec<Ty>,
    /// Textual order of the statements (a permutation of node indices); `None` = index order.
    pub stmt_order: Option<Vec<usize>>,
}

impl Op {
    pub fn name(&self) -> &'static str {
        match self {
            Op::SrcStream { .. } => "source_stream",
            Op::SrcIter { .. } => "source_iter",
            Op::Map(_) => "map",
            Op::Filter(_) => "filter",
            Op::FilterMap(_) => "filter_map",
            Op::FlatMap(_) => "flat_map",
            Op::Flatten => "flatten",
            Op::Inspect => "inspect",
            Op::Identity { .. } => "identity",
            Op::Enumerate { .. } => "enumerate",
            Op::Sort => "sort",
            Op::SortByKey(_) => "sort_by_key",
            Op::Handoff => "handoff",
            Op::Singleton => "singleton",
            Op::Optional => "optional",
            Op::RefMap { .. } => "map#ref",
            Op::Tee { .. } => "tee",
            Op::Unzip => "unzip",
            Op::Partition { .. } => "partition",
            Op::Union { .. } => "union",
            Op::Chain => "chain",
            Op::ChainFirstN { .. } => "chain_first_n",
            Op::Zip { .. } => "zip",
            Op::ZipLongest { .. } => "zip_longest",
            Op::Join { multiset: false, .. } => "join",
            Op::Join { multiset: true, .. } => "join_multiset",
            Op::CrossJoin { multiset: false, .. } => "cross_join",
            Op::CrossJoin { multiset: true, .. } => "cross_join_multiset",
            Op::AntiJoin { .. } => "anti_join",
            Op::Difference { .. } => "difference",
            Op::CrossSingleton { .. } => "cross_singleton",
            Op::JoinMultisetHalf { .. } => "join_multiset_half",
            Op::JoinFused { lhs: Some(_), rhs: Some(_), .. } => "join_fused",
            Op::JoinFused { lhs: Some(_), rhs: None, .. } => "join_fused_lhs",
            Op::JoinFused { lhs: None, rhs: Some(_), .. } => "join_fused_rhs",
            Op::JoinFused { lhs: None, rhs: None, .. } => "join_multiset",
            Op::DeferSignal => "defer_signal",
            Op::Fold { replay: true, .. } => "fold",
            Op::Fold { replay: false, .. } => "fold_no_replay",
            Op::Reduce { replay: true, .. } => "reduce",
            Op::Reduce { replay: false, .. } => "reduce_no_replay",
            Op::FoldKeyed { .. } => "fold_keyed",
            Op::ReduceKeyed { .. } => "reduce_keyed",
            Op::Scan { .. } => "scan",
            Op::Unique { .. } => "unique",
            Op::Persist => "persist",
            Op::MultisetDelta => "multiset_delta",
            Op::DeferTick { lazy: false, .. } => "defer_tick",
            Op::DeferTick { lazy: true, .. } => "defer_tick_lazy",
            Op::LatticeFold { .. } => "lattice_fold",
            Op::LatticeReduce { .. } => "lattice_reduce",
            Op::State { .. } => "state",
            Op::StateBy { .. } => "state_by",
            Op::DemuxEnum => "demux_enum",
            Op::LatticeFoldBatch => "_lattice_fold_batch",
            Op::LatticeJoinFused { .. } => "_lattice_join_fused_join",
            Op::Initialize => "initialize",
            Op::ForEach { .. } => "for_each",
            Op::Null => "null",
        }
    }
    pub fn pers(&self) -> Option<&Vec<Pers>> {
        match self {
            Op::Enumerate { pers }
            | Op::Zip { pers }
            | Op::ZipLongest { pers }
            | Op::Join { pers, .. }
            | Op::CrossJoin { pers, .. }
            | Op::AntiJoin { pers }
            | Op::Difference { pers }
            | Op::CrossSingleton { pers }
            | Op::JoinMultisetHalf { pers }
            | Op::JoinFused { pers, .. }
            | Op::Fold { pers, .. }
            | Op::Reduce { pers, .. }
            | Op::FoldKeyed { pers, .. }
            | Op::ReduceKeyed { pers, .. }
            | Op::Scan { pers, .. }
            | Op::Unique { pers }
            | Op::LatticeFold { pers }
            | Op::LatticeReduce { pers }
            | Op::State { pers }
            | Op::StateBy { pers }
            | Op::LatticeJoinFused { pers } => Some(pers),
            _ => None,
        }
    }
    /// `name<pers>` label for coverage tables and signatures.
    pub fn label(&self) -> String {
        match self {
            Op::Persist => "persist<static>".into(),
            _ => match self.pers() {
                Some(p) => format!("{}<{}>", self.name(), pers_label(p)),
                None => self.name().to_string(),
            },
        }
    }
    /// Has state with `'static` persistence on some argument (C21 non-triviality rule).
    pub fn has_static_state(&self) -> bool {
        match self {
            Op::Persist => true,
            Op::MultisetDelta => true,
            Op::DeferSignal | Op::LatticeFoldBatch => true,
            _ => self
                .pers()
                .map(|p| p.iter().any(|x| *x == Pers::Static))
                .unwrap_or(false),
        }
    }
    pub fn is_stateful(&self) -> bool {
        self.pers().is_some()
            || matches!(
                self,
                Op::Persist | Op::MultisetDelta | Op::DeferTick { .. } | Op::DeferSignal | Op::Sort | Op::SortByKey(_)
            )
    }
    pub fn n_inputs(&self) -> usize {
        match self {
            Op::SrcStream { .. } | Op::SrcIter { .. } | Op::Initialize => 0,
            Op::Union { n } => *n,
            Op::Chain
            | Op::ChainFirstN { .. }
            | Op::Zip { .. }
            | Op::ZipLongest { .. }
            | Op::Join { .. }
            | Op::CrossJoin { .. }
            | Op::AntiJoin { .. }
            | Op::Difference { .. }
            | Op::CrossSingleton { .. }
            | Op::JoinMultisetHalf { .. }
            | Op::JoinFused { .. }
            | Op::LatticeFoldBatch
            | Op::LatticeJoinFused { .. }
            | Op::DeferSignal => 2,
            _ => 1,
        }
    }
    /// names of the input ports as written in the surface syntax (`None` = unnamed)
    pub fn in_port(&self, i: usize) -> Option<String> {
        match self {
            Op::Chain
            | Op::ChainFirstN { .. }
            | Op::Zip { .. }
            | Op::ZipLongest { .. }
            | Op::Join { .. }
            | Op::CrossJoin { .. }
            | Op::LatticeJoinFused { .. }
            | Op::JoinFused { .. } => Some(format!("{i}")),
            Op::AntiJoin { .. } | Op::Difference { .. } => {
                Some(if i == 0 { "pos" } else { "neg" }.to_string())
            }
            Op::CrossSingleton { .. } => Some(if i == 0 { "input" } else { "single" }.to_string()),
            Op::JoinMultisetHalf { .. } => Some(if i == 0 { "build" } else { "probe" }.to_string()),
            Op::DeferSignal | Op::LatticeFoldBatch => Some(if i == 0 { "input" } else { "signal" }.to_string()),
            _ => None,
        }
    }
    pub fn out_port(&self, i: usize) -> Option<String> {
        match self {
            Op::Unzip | Op::Partition { .. } => Some(format!("{i}")),
            Op::State { .. } | Op::StateBy { .. } => Some(if i == 0 { "items" } else { "state" }.to_string()),
            Op::DemuxEnum => Some(["A", "B", "C"][i].to_string()),
            _ => None,
        }
    }
}

/// Output item types of `op` given its input item types; `Err` = the combination does not type.
pub fn out_types(op: &Op, ins: &[Ty], prog_sources: &[Ty]) -> Result<Vec<Ty>, String> {
    let need = |n: usize| -> Result<(), String> {
        if ins.len() == n {
            Ok(())
        } else {
            Err(format!("{} expects {} inputs, got {}", op.name(), n, ins.len()))
        }
    };
    let bad = |why: &str| -> Result<Vec<Ty>, String> { Err(format!("{}: {}", op.name(), why)) };
    let i = || Ty::I;
    let p = Ty::p;
    match op {
        Op::SrcStream { src, ty } => {
            need(0)?;
            if prog_sources.get(*src) != Some(ty) {
                return bad("source type mismatch");
            }
            Ok(vec![ty.clone()])
        }
        Op::SrcIter { ty, .. } => {
            need(0)?;
            Ok(vec![ty.clone()])
        }
        Op::Map(f) => {
            need(1)?;
            let t = &ins[0];
            let o = match f {
                MapFn::AddC(_) | MapFn::MulMod(..) | MapFn::Neg | MapFn::Half if *t == Ty::I => i(),
                MapFn::KeyMod(_) | MapFn::Dup if *t == Ty::I => p(),
                MapFn::Swap | MapFn::SwapMod(_) | MapFn::AddV(_) | MapFn::KeyModP(_) if t.is_p() => p(),
                MapFn::Fst | MapFn::Snd | MapFn::Comb if t.is_p() => i(),
                MapFn::NormI if norm_ok(t) => i(),
                MapFn::NormP if norm_ok(t) && t.leaves() >= 1 => p(),
                MapFn::ToVec2 if t.is_base() => Ty::V(Box::new(t.clone())),
                MapFn::ToRangeVec if *t == Ty::I => Ty::V(Box::new(Ty::I)),
                MapFn::ToMax if *t == Ty::I => Ty::MaxI,
                MapFn::FromMax if *t == Ty::MaxI => i(),
                MapFn::ToSet if *t == Ty::I => Ty::SetI,
                MapFn::ToShape if *t == Ty::I => Ty::Sh,
                MapFn::KeyMax if t.is_p() => Ty::pair(Ty::I, Ty::MaxI),
                _ => return bad("map fn does not apply to input type"),
            };
            Ok(vec![o])
        }
        Op::Filter(f) => {
            need(1)?;
            let ok = match f {
                Pred::Even | Pred::Odd | Pred::Lt(_) | Pred::Ne(_) => ins[0] == Ty::I,
                Pred::KeyEven | Pred::ValLt(_) | Pred::KLtV => ins[0].is_p(),
            };
            if ok {
                Ok(vec![ins[0].clone()])
            } else {
                bad("predicate does not apply")
            }
        }
        Op::FilterMap(f) => {
            need(1)?;
            match f {
                FmFn::HalfEven if ins[0] == Ty::I => Ok(vec![i()]),
                FmFn::Diff if ins[0].is_p() => Ok(vec![i()]),
                FmFn::HalfV if ins[0].is_p() => Ok(vec![p()]),
                _ => bad("fn does not apply"),
            }
        }
        Op::FlatMap(f) => {
            need(1)?;
            match f {
                FlatFn::Two | FlatFn::Range if ins[0] == Ty::I => Ok(vec![i()]),
                FlatFn::Both if ins[0].is_p() => Ok(vec![i()]),
                FlatFn::Mirror if ins[0].is_p() => Ok(vec![p()]),
                _ => bad("fn does not apply"),
            }
        }
        Op::Flatten => {
            need(1)?;
            match &ins[0] {
                Ty::V(t) => Ok(vec![(**t).clone()]),
                _ => bad("input not iterable"),
            }
        }
        Op::Inspect | Op::Identity { .. } | Op::Handoff | Op::Singleton | Op::Optional => {
            need(1)?;
            Ok(vec![ins[0].clone()])
        }
        Op::Enumerate { pers } => {
            need(1)?;
            if pers.len() > 1 {
                return bad("too many persistence args");
            }
            Ok(vec![Ty::pair(Ty::U, ins[0].clone())])
        }
        Op::Sort => {
            need(1)?;
            if ins[0].is_plain() {
                Ok(vec![ins[0].clone()])
            } else {
                bad("not Ord-comparable in the model")
            }
        }
        Op::SortByKey(k) => {
            need(1)?;
            match k {
                KeyFn::Whole if ins[0].is_plain() => Ok(vec![ins[0].clone()]),
                KeyFn::K | KeyFn::V if ins[0].is_p() => Ok(vec![ins[0].clone()]),
                _ => bad("key fn does not apply"),
            }
        }
        Op::RefMap { f, .. } => {
            need(1)?;
            if ins[0] != Ty::I {
                return bad("ref holder items must be i64");
            }
            match f {
                RefFn::Add | RefFn::MulAdd(_) | RefFn::Push | RefFn::Retain => Ok(vec![i()]),
                _ => Ok(vec![p()]),
            }
        }
        Op::Tee { n } => {
            need(1)?;
            Ok(vec![ins[0].clone(); *n])
        }
        Op::Unzip => {
            need(1)?;
            match ins[0].kv() {
                Some((a, b)) => Ok(vec![a.clone(), b.clone()]),
                None => bad("input not a pair"),
            }
        }
        Op::Partition { n, .. } => {
            need(1)?;
            if *n < 2 {
                return bad("needs >= 2 outputs");
            }
            if ins[0].is_base() {
                Ok(vec![ins[0].clone(); *n])
            } else {
                bad("partition fn applies to base types only")
            }
        }
        Op::Union { n } => {
            need(*n)?;
            if *n == 0 {
                return bad("union of nothing has no type");
            }
            if ins.iter().all(|t| *t == ins[0]) {
                Ok(vec![ins[0].clone()])
            } else {
                bad("inputs differ in type")
            }
        }
        Op::Chain | Op::ChainFirstN { .. } => {
            need(2)?;
            if ins[0] == ins[1] {
                Ok(vec![ins[0].clone()])
            } else {
                bad("inputs differ in type")
            }
        }
        Op::Zip { pers } => {
            need(2)?;
            if pers.len() > 2 {
                return bad("too many persistence args");
            }
            Ok(vec![Ty::pair(ins[0].clone(), ins[1].clone())])
        }
        Op::ZipLongest { pers } => {
            need(2)?;
            if pers.len() > 1 {
                return bad("too many persistence args");
            }
            Ok(vec![Ty::Eob(Box::new(ins[0].clone()), Box::new(ins[1].clone()))])
        }
        Op::Join { .. } | Op::JoinMultisetHalf { .. } => {
            need(2)?;
            let (Some((k0, v0)), Some((k1, v1))) = (ins[0].kv(), ins[1].kv()) else {
                return bad("inputs must be pairs");
            };
            if k0 != k1 || !k0.is_plain() || !v0.is_plain() || !v1.is_plain() {
                return bad("key types differ / not hashable in the model");
            }
            let vs = if matches!(op, Op::JoinMultisetHalf { .. }) {
                // build = port 0 (K, V1), probe = port 1 (K, V2): output (K, (V2, V1))
                Ty::pair(v1.clone(), v0.clone())
            } else {
                Ty::pair(v0.clone(), v1.clone())
            };
            Ok(vec![Ty::pair(k0.clone(), vs)])
        }
        Op::JoinFused { .. } => {
            need(2)?;
            if ins[0].is_p() && ins[1].is_p() {
                Ok(vec![Ty::pair(Ty::I, p())])
            } else {
                bad("inputs must be (i64, i64)")
            }
        }
        Op::CrossJoin { .. } => {
            need(2)?;
            if ins[0].is_plain() && ins[1].is_plain() {
                Ok(vec![Ty::pair(ins[0].clone(), ins[1].clone())])
            } else {
                bad("not hashable in the model")
            }
        }
        Op::AntiJoin { .. } => {
            need(2)?;
            match ins[0].kv() {
                Some((k, v)) if *k == ins[1] && k.is_plain() && v.is_plain() => Ok(vec![ins[0].clone()]),
                _ => bad("pos must be (K, V), neg K"),
            }
        }
        Op::Difference { .. } => {
            need(2)?;
            if ins[0] == ins[1] && ins[0].is_plain() {
                Ok(vec![ins[0].clone()])
            } else {
                bad("inputs differ in type")
            }
        }
        Op::CrossSingleton { pers } => {
            need(2)?;
            if pers.len() > 1 {
                return bad("too many persistence args");
            }
            if !ins[1].is_plain() {
                return bad("single must be cloneable plain");
            }
            Ok(vec![Ty::pair(ins[0].clone(), ins[1].clone())])
        }
        Op::DeferSignal => {
            need(2)?;
            Ok(vec![ins[0].clone()])
        }
        Op::Fold { f, pers, .. } => {
            need(1)?;
            if pers.len() > 1 {
                return bad("too many persistence args");
            }
            fold_acc_ty(f, &ins[0]).map(|t| vec![t]).ok_or_else(|| "fold fn does not apply".to_string())
        }
        Op::Reduce { f, pers, .. } => {
            need(1)?;
            if pers.len() > 1 {
                return bad("too many persistence args");
            }
            if red_ok(f, &ins[0]) {
                Ok(vec![ins[0].clone()])
            } else {
                bad("reduce fn does not apply")
            }
        }
        Op::FoldKeyed { f, pers } => {
            need(1)?;
            if pers.len() > 1 {
                return bad("too many persistence args");
            }
            let Some((k, v)) = ins[0].kv() else {
                return bad("input must be a pair");
            };
            if !k.is_plain() {
                return bad("key not hashable in the model");
            }
            match fold_acc_ty(f, v) {
                Some(a) => Ok(vec![Ty::pair(k.clone(), a)]),
                None => bad("fold fn does not apply"),
            }
        }
        Op::ReduceKeyed { f, pers } => {
            need(1)?;
            if pers.len() > 1 {
                return bad("too many persistence args");
            }
            let Some((k, v)) = ins[0].kv() else {
                return bad("input must be a pair");
            };
            if k.is_plain() && red_ok(f, v) {
                Ok(vec![ins[0].clone()])
            } else {
                bad("reduce fn does not apply")
            }
        }
        Op::Scan { f, pers } => {
            need(1)?;
            if pers.len() > 1 {
                return bad("too many persistence args");
            }
            match f {
                ScanFn::RunSum | ScanFn::SumUntil(_) if ins[0] == Ty::I => Ok(vec![i()]),
                ScanFn::RunKeyed if ins[0].is_p() => Ok(vec![p()]),
                _ => bad("scan fn does not apply"),
            }
        }
        Op::Unique { pers } => {
            need(1)?;
            if pers.len() > 1 {
                return bad("too many persistence args");
            }
            if ins[0].is_plain() {
                Ok(vec![ins[0].clone()])
            } else {
                bad("not hashable in the model")
            }
        }
        Op::MultisetDelta => {
            need(1)?;
            if ins[0].is_plain() {
                Ok(vec![ins[0].clone()])
            } else {
                bad("not hashable in the model")
            }
        }
        Op::Persist => {
            need(1)?;
            Ok(vec![ins[0].clone()])
        }
        Op::DeferTick { back, .. } => {
            need(1)?;
            if let Some(t) = back {
                if *t != ins[0] {
                    return bad("declared cycle type differs from the input type");
                }
            }
            Ok(vec![ins[0].clone()])
        }
        Op::LatticeFold { pers } | Op::LatticeReduce { pers } => {
            need(1)?;
            if pers.len() > 1 {
                return bad("too many persistence args");
            }
            match (&ins[0], op) {
                (Ty::MaxI, _) => Ok(vec![Ty::MaxI]),
                (Ty::SetI, _) => Ok(vec![Ty::SetI]),
                _ => bad("input not a lattice"),
            }
        }
        Op::State { pers } => {
            need(1)?;
            if pers.len() > 1 {
                return bad("too many persistence args");
            }
            match &ins[0] {
                Ty::MaxI => Ok(vec![Ty::MaxI, Ty::MaxI]),
                _ => bad("input not Max<i64>"),
            }
        }
        Op::StateBy { pers } => {
            need(1)?;
            if pers.len() > 1 {
                return bad("too many persistence args");
            }
            if ins[0] == Ty::I {
                Ok(vec![Ty::I, Ty::MaxI])
            } else {
                bad("items must be i64")
            }
        }
        Op::LatticeFoldBatch => {
            need(2)?;
            match &ins[0] {
                Ty::MaxI | Ty::SetI => Ok(vec![ins[0].clone()]),
                _ => bad("input not a lattice"),
            }
        }
        Op::LatticeJoinFused { pers } => {
            need(2)?;
            if pers.len() > 2 {
                return bad("too many persistence args");
            }
            let kl = Ty::pair(Ty::I, Ty::MaxI);
            if ins[0] == kl && ins[1] == kl {
                Ok(vec![Ty::pair(Ty::I, Ty::p())])
            } else {
                bad("inputs must be (i64, Max<i64>)")
            }
        }
        Op::DemuxEnum => {
            need(1)?;
            if ins[0] == Ty::Sh {
                Ok(vec![Ty::T(vec![Ty::I]), Ty::p(), Ty::p()])
            } else {
                bad("input must be gd::Sh")
            }
        }
        Op::Initialize => {
            need(0)?;
            Ok(vec![Ty::Unit])
        }
        Op::ForEach { .. } | Op::Null => {
            need(1)?;
            Ok(vec![])
        }
    }
}

fn norm_ok(t: &Ty) -> bool {
    match t {
        Ty::I | Ty::U => true,
        Ty::Unit => true,
        Ty::T(v) => v.iter().all(norm_ok),
        Ty::V(t) => t.is_plain(),
        Ty::Eob(a, b) => a.is_plain() && b.is_plain(),
        Ty::MaxI => true,
        Ty::SetI => true,
        Ty::Sh => true,
    }
}

pub fn fold_acc_ty(f: &FoldFn, item: &Ty) -> Option<Ty> {
    match f {
        FoldFn::Sum | FoldFn::Max | FoldFn::Poly if *item == Ty::I => Some(Ty::I),
        FoldFn::Count => Some(Ty::I),
        FoldFn::Push if item.is_plain() => Some(Ty::V(Box::new(item.clone()))),
        FoldFn::SumP if item.is_p() => Some(Ty::p()),
        FoldFn::PolyP if item.is_p() => Some(Ty::I),
        _ => None,
    }
}

pub fn red_ok(f: &RedFn, item: &Ty) -> bool {
    match f {
        RedFn::Sum | RedFn::Poly => *item == Ty::I,
        RedFn::Max | RedFn::Min => item.is_plain(),
        RedFn::First | RedFn::Last => item.is_plain(),
        RedFn::SumP => item.is_p(),
    }
}

impl FoldFn {
    pub fn commutative(&self) -> bool {
        matches!(self, FoldFn::Sum | FoldFn::Count | FoldFn::Max | FoldFn::SumP)
    }
}
impl RedFn {
    pub fn commutative(&self) -> bool {
        matches!(self, RedFn::Sum | RedFn::Max | RedFn::Min | RedFn::SumP)
    }
}
impl FusedAgg {
    pub fn commutative(&self) -> bool {
        !matches!(self, FusedAgg::ReducePoly)
    }
}

impl Prog {
    pub fn order(&self) -> Vec<usize> {
        match &self.stmt_order {
            Some(o) => o.clone(),
            None => (0..self.nodes.len()).collect(),
        }
    }
    pub fn n_sinks(&self) -> usize {
        self.nodes
            .iter()
            .filter_map(|n| match n.op {
                Op::ForEach { sink } => Some(sink + 1),
                _ => None,
            })
            .max()
            .unwrap_or(0)
    }
    pub fn op_labels(&self) -> Vec<String> {
        self.nodes.iter().map(|n| n.op.label()).collect()
    }
    /// stable signature part: sorted multiset of the stateful / structural operator labels
    pub fn stateful_sig(&self) -> String {
        let mut v: Vec<String> = self
            .nodes
            .iter()
            .filter(|n| {
                !matches!(
                    n.op,
                    Op::SrcStream { .. } | Op::SrcIter { .. } | Op::ForEach { .. } | Op::Null | Op::Map(_) | Op::Identity { .. }
                )
            })
            .map(|n| n.op.label())
            .collect();
        v.sort();
        v.dedup();
        v.join("+")
    }
}
