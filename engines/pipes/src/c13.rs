//! C13 — symmetric hash join: streaming path, drain-then-enumerate path, multi-tick persisted
//! state (DESIGN.md §4 C13).
//!
//! Oracle (independent relational model): per side an accepted-entry table; an arriving entry is
//! *new* iff the side's semantics accepts it (set: not yet present; multiset: always). Per tick
//!  * streaming path (`is_new_tick = false`): exactly the pairs (l, r) with equal keys where at
//!    least one of the two entries is new in this tick, each once;
//!  * drain path (`is_new_tick = true`): the full join of the two tables after the tick's
//!    inputs (the `join` operator "replays" persisted state);
//! then a `'tick` side is cleared and a `'static` side keeps its table, as dfir_lang's
//! `join.rs` generates. Emission order is unspecified: multisets are compared.

use std::rc::Rc;

use dfir_pipes::pull::{self, HalfJoinState, HalfMultisetJoinState, HalfSetJoinState, Pull, PullStep};
use serde::{Deserialize, Serialize};
use vcommon::proptest::prelude::*;
use vcommon::{Ctx, Fail, Obs, Tier};

use crate::script::*;

type K = u8;
type V = u8;
type Out = (K, (V, V));

#[derive(Clone, Debug, Serialize, Deserialize)]
pub struct TickIn {
    pub lhs: Script<(K, V)>,
    pub rhs: Script<(K, V)>,
    /// true: drain-then-enumerate path (`symmetric_hash_join(.., is_new_tick = true)`)
    pub drain: bool,
}

#[derive(Clone, Debug, Serialize, Deserialize)]
pub struct JoinCase {
    /// set semantics (`HalfSetJoinState`) for the lhs / rhs state; otherwise multiset
    pub lhs_set: bool,
    pub rhs_set: bool,
    /// `'static` persistence for the lhs / rhs state; otherwise cleared at every tick end
    pub lhs_static: bool,
    pub rhs_static: bool,
    /// streaming ticks use the `Pull::symmetric_hash_join_state` method instead of the async fn
    pub via_method: bool,
    pub ticks: Vec<TickIn>,
}

fn fail(kind: &str, msg: String) -> Fail {
    Fail::new(format!("join:{kind}"), msg)
}

/// Reference model of one half.
#[derive(Default)]
struct Side {
    set: bool,
    table: Vec<(K, V)>,
}
impl Side {
    /// Returns the entries of `arrivals` that are new under this side's semantics and adds them.
    fn accept(&mut self, arrivals: &[(K, V)]) -> Vec<(K, V)> {
        let mut new = vec![];
        for e in arrivals {
            if self.set && self.table.contains(e) {
                continue;
            }
            self.table.push(*e);
            new.push(*e);
        }
        new
    }
}

fn join_of(l: &[(K, V)], r: &[(K, V)]) -> Vec<Out> {
    let mut out = vec![];
    for (k1, v1) in l {
        for (k2, v2) in r {
            if k1 == k2 {
                out.push((*k1, (*v1, *v2)));
            }
        }
    }
    out
}

fn kind_name(c: &JoinCase) -> &'static str {
    match (c.lhs_set, c.rhs_set) {
        (true, true) => "set/set",
        (false, false) => "multiset/multiset",
        (true, false) => "set/multiset",
        (false, true) => "multiset/set",
    }
}

/// One tick against the code under test; returns the emitted items.
fn run_tick<L, R>(case: &JoinCase, t: &TickIn, ls: &mut L, rs: &mut R, tick_no: usize) -> Result<Vec<Out>, Fail>
where
    L: HalfJoinState<K, V, V>,
    R: HalfJoinState<K, V, V>,
{
    let env = Env::new(&[]);
    let lhs = Src::<(K, V), SyncC, true>::new(&env, &t.lhs, Hint::EXACT);
    let rhs = Src::<(K, V), TaskC, true>::new(&env, &t.rhs, Hint::EXACT);
    let max_out = (t.lhs.len() + ls.len() + 1) * (t.rhs.len() + rs.len() + 1) + 4;
    let budget = env.total_pend.get() + max_out as u64 + 8;
    let mut out: Vec<Out> = vec![];
    let path = if t.drain { "drain" } else { "streaming" };

    macro_rules! drain_pull {
        ($p:expr) => {{
            let mut p = std::pin::pin!($p);
            let mut polls = 0u64;
            loop {
                let pend0 = env.pend.get();
                polls += 1;
                match pull_once(p.as_mut()) {
                    PullStep::Ready(x, ()) => out.push(x),
                    PullStep::Pending(_) => {
                        if env.pend.get() == pend0 {
                            return Err(fail(
                                &format!("{path}:spontaneous-pending"),
                                format!("tick {tick_no}: join returned Pending although neither input pended in that poll"),
                            ));
                        }
                    }
                    PullStep::Ended(_) => break,
                }
                if polls > budget || out.len() > max_out {
                    return Err(fail(
                        &format!("{path}:no-termination"),
                        format!("tick {tick_no}: {polls} polls / {} outputs without Ended", out.len()),
                    ));
                }
            }
        }};
    }

    if !t.drain && case.via_method {
        drain_pull!(lhs.symmetric_hash_join_state(rhs, ls, rs));
    } else {
        // the async constructor: pending inputs suspend the drain phase
        let fut = pull::symmetric_hash_join(lhs, rhs, ls, rs, t.drain);
        let mut fut = std::pin::pin!(fut);
        let mut polls = 0u64;
        let p = loop {
            let pend0 = env.pend.get();
            polls += 1;
            match poll_once(fut.as_mut()) {
                std::task::Poll::Ready(p) => break p,
                std::task::Poll::Pending => {
                    if env.pend.get() == pend0 {
                        return Err(fail(
                            &format!("{path}:spontaneous-pending"),
                            format!("tick {tick_no}: symmetric_hash_join future returned Pending although neither input pended"),
                        ));
                    }
                }
            }
            if polls > budget {
                return Err(fail(&format!("{path}:no-termination"), format!("tick {tick_no}: future never completed")));
            }
        };
        drain_pull!(p);
    }
    Ok(out)
}

fn run_states<L, R>(case: &JoinCase, mut ls: L, mut rs: R, obs: &mut Obs) -> Result<(), Fail>
where
    L: HalfJoinState<K, V, V>,
    R: HalfJoinState<K, V, V>,
{
    let mut ml = Side { set: case.lhs_set, table: vec![] };
    let mut mr = Side { set: case.rhs_set, table: vec![] };
    let mut all_l: Vec<(K, V)> = vec![];
    let mut all_r: Vec<(K, V)> = vec![];
    for (i, t) in case.ticks.iter().enumerate() {
        let l_in = items_of(&t.lhs);
        let r_in = items_of(&t.rhs);
        all_l.extend(l_in.iter().copied());
        all_r.extend(r_in.iter().copied());
        let old_l = ml.table.clone();
        let old_r = mr.table.clone();
        let new_l = ml.accept(&l_in);
        let new_r = mr.accept(&r_in);
        let mut expected = if t.drain {
            join_of(&ml.table, &mr.table)
        } else {
            // pairs with at least one new entry
            let mut e = join_of(&new_l, &mr.table);
            e.extend(join_of(&old_l, &new_r));
            e
        };
        obs.class(if !t.drain {
            "path:streaming"
        } else if ml.table.len() < mr.table.len() {
            "path:drain(lhs table smaller)"
        } else {
            "path:drain(rhs table smaller or equal)"
        });
        let mut got = run_tick(case, t, &mut ls, &mut rs, i)?;
        got.sort();
        expected.sort();
        if got != expected {
            let path = if t.drain { "drain" } else { "streaming" };
            let kind = if is_subsequence(&got, &expected) {
                "missed-pairs"
            } else if is_subsequence(&expected, &got) {
                "repeated-pairs"
            } else {
                "wrong-pairs"
            };
            return Err(fail(
                &format!("{path}:{}:{kind}", kind_name(case)),
                format!(
                    "tick {i} ({path}, lhs {} {}, rhs {} {}): emitted {:?}, expected {:?} (state before: lhs {:?}, rhs {:?})",
                    if case.lhs_set { "set" } else { "multiset" },
                    if case.lhs_static { "'static" } else { "'tick" },
                    if case.rhs_set { "set" } else { "multiset" },
                    if case.rhs_static { "'static" } else { "'tick" },
                    got,
                    expected,
                    old_l,
                    old_r
                ),
            ));
        }
        // tick end, as join.rs generates it
        if !case.lhs_static {
            ls.clear();
            ml.table.clear();
        }
        if !case.rhs_static {
            rs.clear();
            mr.table.clear();
        }
    }
    // non-trivial: duplicates on at least one side and a key with >= 2 distinct values on both sides
    let dup = |v: &[(K, V)]| v.iter().enumerate().any(|(i, e)| v[..i].contains(e));
    let two_vals = |v: &[(K, V)], k: K| {
        let mut vs: Vec<V> = v.iter().filter(|e| e.0 == k).map(|e| e.1).collect();
        vs.sort();
        vs.dedup();
        vs.len() >= 2
    };
    let nt = (dup(&all_l) || dup(&all_r)) && (0..=1u8).any(|k| two_vals(&all_l, k) && two_vals(&all_r, k));
    obs.nontrivial(nt);
    obs.class(kind_name(case));
    if case.ticks.len() > 1 {
        obs.class(match (case.lhs_static, case.rhs_static) {
            (true, true) => "persist:static/static",
            (false, false) => "persist:tick/tick",
            (true, false) => "persist:static/tick",
            (false, true) => "persist:tick/static",
        });
    }
    Ok(())
}

pub fn run_case(case: &JoinCase, obs: &mut Obs) -> Result<(), Fail> {
    let r = std::panic::catch_unwind(std::panic::AssertUnwindSafe(|| match (case.lhs_set, case.rhs_set) {
        (true, true) => run_states(case, HalfSetJoinState::<K, V, V>::default(), HalfSetJoinState::<K, V, V>::default(), obs),
        (true, false) => run_states(case, HalfSetJoinState::<K, V, V>::default(), HalfMultisetJoinState::<K, V, V>::default(), obs),
        (false, true) => run_states(case, HalfMultisetJoinState::<K, V, V>::default(), HalfSetJoinState::<K, V, V>::default(), obs),
        (false, false) => run_states(case, HalfMultisetJoinState::<K, V, V>::default(), HalfMultisetJoinState::<K, V, V>::default(), obs),
    }));
    match r {
        Ok(r) => r,
        Err(p) => Err(Fail::new(
            format!("join:panic:{}", vcommon::panic_sig(&p)),
            format!("panic inside the join: {}", vcommon::panic_msg(&p)),
        )),
    }
}

// ---------------------------------------------------------------------------------------------
// Domains
// ---------------------------------------------------------------------------------------------

fn entries(vmax: V) -> Vec<(K, V)> {
    let mut e = vec![];
    for k in 0..=1u8 {
        for v in 0..=vmax {
            e.push((k, v));
        }
    }
    e
}

/// Scripts with `k_of(len)` pendings at most, by list length.
fn side_scripts(max_len: usize, vmax: V, k_of: impl Fn(usize) -> usize) -> Vec<Script<(K, V)>> {
    lists(max_len, &entries(vmax)).iter().flat_map(|l| placements(l, k_of(l.len()))).collect()
}

fn single_tick(
    sl: Rc<Vec<Script<(K, V)>>>,
    sr: Rc<Vec<Script<(K, V)>>>,
    drains: Vec<bool>,
    methods: Vec<bool>,
) -> impl Iterator<Item = JoinCase> {
    let (nl, nr) = (sl.len(), sr.len());
    let variants: Vec<(bool, bool, bool, bool)> = {
        let mut v = vec![];
        for ls in [true, false] {
            for rs in [true, false] {
                for d in &drains {
                    for m in &methods {
                        if *d && *m {
                            continue;
                        }
                        v.push((ls, rs, *d, *m));
                    }
                }
            }
        }
        v
    };
    let nv = variants.len();
    (0..nl * nr * nv).map(move |mut i| {
        let (lhs_set, rhs_set, drain, via_method) = variants[i % nv];
        i /= nv;
        let rhs = sr[i % nr].clone();
        i /= nr;
        let lhs = sl[i].clone();
        JoinCase { lhs_set, rhs_set, lhs_static: false, rhs_static: false, via_method, ticks: vec![TickIn { lhs, rhs, drain }] }
    })
}

fn multi_tick(n_ticks: usize, lhs_lists: Rc<Vec<Vec<(K, V)>>>, rhs_lists: Rc<Vec<Vec<(K, V)>>>) -> impl Iterator<Item = JoinCase> {
    let (nl, nr) = (lhs_lists.len(), rhs_lists.len());
    // per tick: lhs list, rhs list, drain flag; global: 4 kinds x 4 persistence
    let per_tick = nl * nr * 2;
    let total = per_tick.pow(n_ticks as u32) * 16;
    (0..total).map(move |mut i| {
        let g = i % 16;
        i /= 16;
        let mut ticks = vec![];
        for _ in 0..n_ticks {
            let mut j = i % per_tick;
            i /= per_tick;
            let drain = j % 2 == 1;
            j /= 2;
            let rhs: Script<(K, V)> = rhs_lists[j % nr].iter().map(|e| Some(*e)).collect();
            j /= nr;
            let lhs: Script<(K, V)> = lhs_lists[j].iter().map(|e| Some(*e)).collect();
            ticks.push(TickIn { lhs, rhs, drain });
        }
        JoinCase { lhs_set: g & 1 != 0, rhs_set: g & 2 != 0, lhs_static: g & 4 != 0, rhs_static: g & 8 != 0, via_method: false, ticks }
    })
}

fn script_strategy(max_len: usize, vmax: V) -> impl Strategy<Value = Script<(K, V)>> {
    prop::collection::vec(((0u8..=1, 0u8..=vmax), prop::sample::select(vec![0u8, 0, 0, 1, 1, 2])), 0..=max_len).prop_map(|items| {
        let mut s = vec![];
        for (e, p) in items {
            for _ in 0..p {
                s.push(None);
            }
            s.push(Some(e));
        }
        s
    })
}

fn case_strategy(max_ticks: usize, max_len: usize) -> impl Strategy<Value = JoinCase> {
    (
        any::<bool>(),
        any::<bool>(),
        any::<bool>(),
        any::<bool>(),
        any::<bool>(),
        prop::collection::vec((script_strategy(max_len, 2), script_strategy(max_len, 2), any::<bool>()), 1..=max_ticks),
    )
        .prop_map(|(lhs_set, rhs_set, lhs_static, rhs_static, via_method, ticks)| JoinCase {
            lhs_set,
            rhs_set,
            lhs_static,
            rhs_static,
            via_method,
            ticks: ticks.into_iter().map(|(lhs, rhs, drain)| TickIn { lhs, rhs, drain }).collect(),
        })
}

pub fn run(ctx: &mut Ctx) {
    ctx.rule = "One case = state kinds (set/multiset per side) x per-side persistence ('tick cleared / 'static kept) x ticks; each tick = \
                lhs and rhs lists of (k,v), k in {0,1}, v in {0,1,2}, a placement of Pending steps in each fused scripted input (the \
                join polls lhs first, so the placements induce the arrival interleavings) and the path (streaming SymmetricHashJoin via \
                the async constructor or the Pull method; drain-then-enumerate). Bounded-exhaustive over single ticks (len<=3 per side) \
                and over 2-tick histories with short inputs, plus seeded random histories (<=4 ticks, <=8 entries per side and tick). \
                Oracle: independent relational model (multiset of emitted (k,(v1,v2)) per tick). Non-trivial: duplicates on at least \
                one side and a key with >=2 distinct values on both sides (over the whole history); distinct = structural hash of the case."
        .into();
    ctx.assume("emission order of the join is unspecified (hash order in the drain path): multisets are compared");
    ctx.assume("streaming ticks are driven to Ended, so no queued match is carried into the next tick");
    ctx.floor = 1000;
    let th = ctx.tier() == Tier::Thorough;

    // (1) streaming, v in {0,1}: every placement of <=1 (quick) / <=2 (thorough) Pending per side
    let s = Rc::new(side_scripts(3, 1, |len| if th || len <= 2 { 2 } else { 1 }));
    ctx.check_all("x/streaming(v<=1)", single_tick(s.clone(), s.clone(), vec![false], vec![false, true]), |c: &JoinCase, o| run_case(c, o));
    // (2) streaming, full value domain: <=2 Pending for short inputs, fewer for len 3
    let s = Rc::new(side_scripts(3, 2, |len| if len <= 2 { 2 } else if th { 1 } else { 0 }));
    ctx.check_all("x/streaming(v<=2)", single_tick(s.clone(), s.clone(), vec![false], vec![false]), |c: &JoinCase, o| run_case(c, o));
    // (3) drain path: arrival order is irrelevant there; pendings exercise the suspended drain
    let s = Rc::new(side_scripts(3, 2, |len| if len <= 1 || (th && len <= 2) { 1 } else { 0 }));
    ctx.check_all("x/drain(v<=2)", single_tick(s.clone(), s.clone(), vec![true], vec![false]), |c: &JoinCase, o| run_case(c, o));
    let s = Rc::new(side_scripts(3, 1, |_| 1));
    ctx.check_all("x/drain(v<=1,pending)", single_tick(s.clone(), s.clone(), vec![true], vec![false]), |c: &JoinCase, o| run_case(c, o));
    // (4) multi-tick histories, exhaustive over short inputs (no pendings: arrival order within a
    // tick is covered by (1)-(3); here the persisted / cleared state matters)
    let l2 = Rc::new(lists(2, &entries(1)));
    let l1 = Rc::new(lists(1, &entries(1)));
    ctx.check_all("x/2-ticks", multi_tick(2, l2.clone(), if th { l2.clone() } else { l1.clone() }), |c: &JoinCase, o| run_case(c, o));
    let one_key = Rc::new(lists(1, &[(0u8, 0u8), (0, 1)]));
    ctx.check_all("x/3-ticks(one key)", multi_tick(3, one_key.clone(), one_key), |c: &JoinCase, o| run_case(c, o));
    // (5) random histories
    ctx.check("r/single-tick", if th { 1_500_000 } else { 100_000 }, case_strategy(1, 8), |c: &JoinCase, o| run_case(c, o));
    ctx.check("r/multi-tick", if th { 1_500_000 } else { 100_000 }, case_strategy(4, 5), |c: &JoinCase, o| run_case(c, o));
}
