//! C11 — pull combinators vs. iterator semantics under any Pending schedule, fused-ness and
//! size hints (DESIGN.md §4 C11).

use std::collections::BTreeMap;
use std::fmt::Debug;
use std::future::Future;
use std::rc::Rc;
use std::task::Poll;

use dfir_pipes::itertools::{Either, Itertools};
use dfir_pipes::pull::{self, FusedPull, Pull, PullStep};
use serde::{Deserialize, Serialize};
use vcommon::proptest::prelude::*;
use vcommon::{Ctx, Fail, Obs, Tier};

use crate::script::*;

/// Signature of the confirmed finding "pull `FilterMapAsync::size_hint` upper bound ignores the
/// in-flight future" (shared by every subject that contains a pull `filter_map_async` stage).
pub const SIG_FMA_UPPER: &str = "pull/FilterMapAsync::size_hint:upper<remaining:future-in-flight";

#[derive(Clone, Debug, Serialize, Deserialize)]
pub struct PullCase {
    pub a: Script<i64>,
    pub b: Script<i64>,
    pub c: Script<i64>,
    /// pending tape consulted by scripted inner streams / futures (`true` = answer Pending)
    pub tape: Vec<bool>,
    /// parameter of take/skip (and selector of `Either`)
    pub n: u8,
    /// true: every source is a `FusedPull`; false: "strict" configuration, sources are non-fused
    /// wherever the combinator's bounds allow it
    pub fused: bool,
    /// size-hint slack of the sources (hint = (remaining - lo, remaining + hi | None))
    pub lo_slack: u8,
    pub hi_slack: Option<u8>,
}

impl PullCase {
    fn hint(&self) -> Hint {
        Hint {
            lo_slack: self.lo_slack as usize,
            hi_slack: self.hi_slack.map(|h| h as usize),
        }
    }
}

#[derive(Clone, Copy, PartialEq, Eq, Debug)]
pub enum Flag {
    UsesN,
    UsesTape,
}

pub struct PullSubject {
    pub name: &'static str,
    pub arity: u8,
    pub flags: &'static [Flag],
    /// the strict configuration already has only fused sources (no separate all-fused run needed)
    pub strict_is_fused: bool,
    pub run: fn(&PullCase, &Known, &mut Obs) -> Result<(), Fail>,
}

impl PullSubject {
    fn has(&self, f: Flag) -> bool {
        self.flags.contains(&f)
    }
}

fn fail(name: &str, kind: &str, msg: String) -> Fail {
    Fail::new(format!("pull/{name}:{kind}"), msg)
}

/// A failure whose signature is a listed known finding is recorded and the case goes on.
fn known_or_err(known: &Known, obs: &mut Obs, f: Fail) -> Result<(), Fail> {
    if known.contains(&f.sig) {
        if !obs.known_hits.iter().any(|k| k.sig == f.sig) {
            obs.excluded(format!("known:{}", f.sig));
            obs.known_hits.push(f);
        }
        Ok(())
    } else {
        Err(f)
    }
}

pub struct Drive<'a> {
    pub name: &'static str,
    pub env: &'a Rc<Env>,
    pub known: &'a Known,
    /// subject is a `FusedPull` in this configuration: poll 5 more times after `Ended`
    pub extra_polls: bool,
    pub check_hints: bool,
}

fn check_hint<P: Pull>(
    d: &Drive<'_>,
    obs: &mut Obs,
    p: &P,
    remaining: usize,
    when: &str,
) -> Result<(), Fail> {
    if !d.check_hints {
        return Ok(());
    }
    let (lo, hi) = p.size_hint();
    if lo > remaining {
        return known_or_err(
            d.known,
            obs,
            fail(
                d.name,
                "size-hint-lower",
                format!("size_hint() = ({lo}, {hi:?}) {when}, but only {remaining} more items are produced"),
            ),
        );
    }
    if let Some(h) = hi {
        if h < remaining {
            let f = if d.env.inflight.get() > 0 {
                Fail::new(
                    SIG_FMA_UPPER,
                    format!(
                        "[{}] size_hint() = ({lo}, {hi:?}) {when} while a filter_map_async future is in flight, but {remaining} more items are produced",
                        d.name
                    ),
                )
            } else {
                fail(
                    d.name,
                    "size-hint-upper",
                    format!("size_hint() = ({lo}, {hi:?}) {when}, but {remaining} more items are produced"),
                )
            };
            return known_or_err(d.known, obs, f);
        }
    }
    Ok(())
}

/// Drive a pull to its end against the expected item sequence.
pub fn drive<P>(d: &Drive<'_>, p: P, expected: &[P::Item], obs: &mut Obs) -> Result<(), Fail>
where
    P: Pull,
    P::Item: PartialEq + Debug,
{
    let mut p = std::pin::pin!(p);
    let env = d.env;
    let mut got: Vec<P::Item> = Vec::with_capacity(expected.len());
    let budget = env.total_pend.get() + expected.len() as u64 + 8;
    let mut polls = 0u64;
    let mut pendings = 0u32;
    // dynamic non-trivial rule: a Pending answer of the subject after an upstream item had
    // already been handed out, followed later by an output item
    let mut pending_mid = false;
    let mut nontrivial = false;
    check_hint(d, obs, &*p, expected.len(), "before the first poll")?;
    loop {
        let pend0 = env.pend.get();
        let step = pull_once(p.as_mut());
        polls += 1;
        if env.after_end.get() > 0 {
            return Err(fail(
                d.name,
                "poll-after-end",
                format!(
                    "a non-fused upstream was polled again after it reported Ended (poll #{polls}, {} items out so far)",
                    got.len()
                ),
            ));
        }
        match step {
            PullStep::Ready(x, _) => {
                if got.len() >= expected.len() || expected[got.len()] != x {
                    return Err(fail(
                        d.name,
                        "items",
                        format!(
                            "output #{} is {:?}; expected sequence {:?}, got so far {:?}",
                            got.len(),
                            x,
                            expected,
                            got
                        ),
                    ));
                }
                got.push(x);
                if pending_mid {
                    nontrivial = true;
                }
            }
            PullStep::Pending(_) => {
                pendings += 1;
                if env.pend.get() == pend0 {
                    return Err(fail(
                        d.name,
                        "spontaneous-pending",
                        format!(
                            "poll #{polls} returned Pending although no upstream reported Pending during that poll (outputs so far {:?})",
                            got
                        ),
                    ));
                }
                if env.ready.get() > 0 {
                    pending_mid = true;
                }
            }
            PullStep::Ended(_) => break,
        }
        check_hint(d, obs, &*p, expected.len() - got.len(), "mid-stream")?;
        if polls > budget {
            return Err(fail(
                d.name,
                "no-termination",
                format!("{polls} polls without Ended although all scripts are exhausted (budget {budget})"),
            ));
        }
    }
    if got.len() != expected.len() {
        return Err(fail(
            d.name,
            "items",
            format!("ended after {:?}; expected {:?}", got, expected),
        ));
    }
    check_hint(d, obs, &*p, 0, "after Ended")?;
    if d.extra_polls {
        for i in 0..5 {
            let step = pull_once(p.as_mut());
            if env.after_end.get() > 0 {
                return Err(fail(
                    d.name,
                    "poll-after-end",
                    format!("FusedPull subject polled a non-fused upstream again on extra poll #{i} after Ended"),
                ));
            }
            if !step.is_ended() {
                return Err(fail(
                    d.name,
                    "not-fused",
                    format!(
                        "FusedPull subject returned {} on extra poll #{i} after Ended",
                        if step.is_ready() { "Ready" } else { "Pending" }
                    ),
                ));
            }
            check_hint(d, obs, &*p, 0, "after Ended (re-polled)")?;
        }
    }
    obs.nontrivial(nontrivial);
    obs.class(match pendings {
        0 => "subject-pendings=0",
        1 => "subject-pendings=1",
        2 => "subject-pendings=2",
        _ => "subject-pendings>=3",
    });
    Ok(())
}

/// Drive a future to completion; a `Pending` answer must coincide with an upstream `Pending`.
pub fn drive_future<F: Future>(
    name: &'static str,
    env: &Rc<Env>,
    f: F,
    mid: &mut (bool, bool),
) -> Result<F::Output, Fail> {
    let mut f = std::pin::pin!(f);
    let budget = env.total_pend.get() + 8;
    let mut polls = 0u64;
    loop {
        let pend0 = env.pend.get();
        let ready0 = env.ready.get();
        let r = poll_once(f.as_mut());
        polls += 1;
        if env.after_end.get() > 0 {
            return Err(fail(
                name,
                "poll-after-end",
                format!("a non-fused upstream was polled again after it reported Ended (future poll #{polls})"),
            ));
        }
        if mid.0 && env.ready.get() > ready0 {
            mid.1 = true;
        }
        match r {
            Poll::Ready(out) => return Ok(out),
            Poll::Pending => {
                if env.pend.get() == pend0 {
                    return Err(fail(
                        name,
                        "spontaneous-pending",
                        format!("future poll #{polls} returned Pending although no upstream reported Pending"),
                    ));
                }
                if env.ready.get() > 0 {
                    mid.0 = true;
                }
            }
        }
        if polls > budget {
            return Err(fail(
                name,
                "no-termination",
                format!("{polls} polls without completion although all scripts are exhausted"),
            ));
        }
    }
}

pub fn inner_items(x: i64) -> Vec<i64> {
    (0..x.rem_euclid(3)).map(|j| x * 10 + j).collect()
}
fn fm(x: i64) -> Option<i64> {
    if x != 1 {
        Some(x + 10)
    } else {
        None
    }
}

fn assert_fused<P: FusedPull>(_: &P) {}

macro_rules! fused_tok {
    (yes, $p:ident) => {{
        assert_fused(&$p);
        true
    }};
    (no, $p:ident) => {
        false
    };
}
macro_rules! src_kind {
    (N, $c:ty, $env:expr, $s:expr, $h:expr) => {
        Src::<i64, $c, false>::new($env, $s, $h)
    };
    (F, $c:ty, $env:expr, $s:expr, $h:expr) => {
        Src::<i64, $c, true>::new($env, $s, $h)
    };
}
macro_rules! all_f {
    (F, F, F) => {
        true
    };
    ($a:tt, $b:tt, $c:tt) => {
        false
    };
}

/// Registers one subject: the same pull expression is instantiated twice, over all-fused sources
/// and over the "strict" source kinds, next to the `std::iter` expression giving the oracle.
macro_rules! subj {
    ($v:ident, $name:literal, $ar:literal, [$($flag:ident),*], ($ka:tt, $kb:tt, $kc:tt), strict=$fs:tt, fused=$fa:tt,
     |$env:ident, $n:ident, $a:ident, $b:ident, $c:ident| $pull:expr,
     |$in_:ident, $ia:ident, $ib:ident, $ic:ident| $iter:expr) => {
        $v.push(PullSubject {
            name: $name,
            arity: $ar,
            flags: &[$(Flag::$flag),*],
            strict_is_fused: all_f!($ka, $kb, $kc),
            run: |case: &PullCase, known: &Known, obs: &mut Obs| -> Result<(), Fail> {
                #[allow(unused_variables)]
                let expected: Vec<_> = {
                    let $in_ = case.n as usize;
                    let ($ia, $ib, $ic) = (items_of(&case.a), items_of(&case.b), items_of(&case.c));
                    ($iter).collect()
                };
                #[allow(unused_variables)]
                let $n = case.n as usize;
                let $env = Env::new(&case.tape);
                let h = case.hint();
                if case.fused {
                    #[allow(unused_variables)]
                    let ($a, $b, $c) = (
                        Src::<i64, SyncC, true>::new(&$env, &case.a, h),
                        Src::<i64, TaskC, true>::new(&$env, &case.b, h),
                        Src::<i64, SyncC, true>::new(&$env, &case.c, h),
                    );
                    let p = $pull;
                    let extra = fused_tok!($fa, p);
                    drive(&Drive { name: $name, env: &$env, known, extra_polls: extra, check_hints: true }, p, &expected, obs)
                } else {
                    #[allow(unused_variables)]
                    let ($a, $b, $c) = (
                        src_kind!($ka, SyncC, &$env, &case.a, h),
                        src_kind!($kb, TaskC, &$env, &case.b, h),
                        src_kind!($kc, SyncC, &$env, &case.c, h),
                    );
                    let p = $pull;
                    let extra = fused_tok!($fs, p);
                    drive(&Drive { name: $name, env: &$env, known, extra_polls: extra, check_hints: true }, p, &expected, obs)
                }
            },
        });
    };
}

pub fn subjects() -> Vec<PullSubject> {
    let mut v: Vec<PullSubject> = vec![];

    // ---- single combinators ---------------------------------------------------------------
    subj!(v, "map", 1, [], (N, N, N), strict = no, fused = yes,
        |env, n, a, b, c| a.map(|x| x * 2 + 1),
        |n, a, b, c| a.into_iter().map(|x| x * 2 + 1));
    subj!(v, "filter", 1, [], (N, N, N), strict = no, fused = yes,
        |env, n, a, b, c| a.filter(|x| x % 2 == 0),
        |n, a, b, c| a.into_iter().filter(|x| x % 2 == 0));
    subj!(v, "filter_map", 1, [], (N, N, N), strict = no, fused = yes,
        |env, n, a, b, c| a.filter_map(fm),
        |n, a, b, c| a.into_iter().filter_map(fm));
    subj!(v, "flat_map", 1, [], (N, N, N), strict = no, fused = yes,
        |env, n, a, b, c| a.flat_map(inner_items),
        |n, a, b, c| a.into_iter().flat_map(inner_items));
    subj!(v, "flatten", 1, [], (N, N, N), strict = no, fused = yes,
        |env, n, a, b, c| a.map(inner_items).flatten(),
        |n, a, b, c| a.into_iter().map(inner_items).flatten());
    subj!(v, "chain", 2, [], (F, N, N), strict = no, fused = yes,
        |env, n, a, b, c| a.chain(b),
        |n, a, b, c| a.into_iter().chain(b));
    subj!(v, "zip", 2, [], (N, N, N), strict = no, fused = no,
        |env, n, a, b, c| a.zip(b),
        |n, a, b, c| a.into_iter().zip(b));
    subj!(v, "zip_longest", 2, [], (F, F, F), strict = yes, fused = yes,
        |env, n, a, b, c| a.zip_longest(b),
        |n, a, b, c| a.into_iter().zip_longest(b));
    subj!(v, "enumerate", 1, [], (N, N, N), strict = no, fused = yes,
        |env, n, a, b, c| a.enumerate(),
        |n, a, b, c| a.into_iter().enumerate());
    subj!(v, "skip", 1, [UsesN], (N, N, N), strict = no, fused = yes,
        |env, n, a, b, c| a.skip(n),
        |n, a, b, c| a.into_iter().skip(n));
    subj!(v, "skip_while", 1, [], (N, N, N), strict = no, fused = yes,
        |env, n, a, b, c| a.skip_while(|x| *x != 2),
        |n, a, b, c| a.into_iter().skip_while(|x| *x != 2));
    subj!(v, "take", 1, [UsesN], (N, N, N), strict = yes, fused = yes,
        |env, n, a, b, c| a.take(n),
        |n, a, b, c| a.into_iter().take(n));
    subj!(v, "take_while", 1, [], (N, N, N), strict = no, fused = no,
        |env, n, a, b, c| a.take_while(|x| *x != 2),
        |n, a, b, c| a.into_iter().take_while(|x| *x != 2));
    subj!(v, "fuse", 1, [], (N, N, N), strict = yes, fused = yes,
        |env, n, a, b, c| a.fuse(),
        |n, a, b, c| a.into_iter());
    subj!(v, "cross_singleton", 2, [], (N, N, N), strict = no, fused = yes,
        |env, n, a, b, c| a.cross_singleton(b),
        |n, a, b, c| { let s = b.first().copied(); a.into_iter().filter_map(move |x| s.map(|s| (x, s))) });
    subj!(v, "filter_map_async", 1, [UsesTape], (N, N, N), strict = no, fused = yes,
        |env, n, a, b, c| a.filter_map_async({ let e = env.clone(); move |x| InnerFut::new(&e, fm(x)) }),
        |n, a, b, c| a.into_iter().filter_map(fm));
    subj!(v, "flat_map_stream", 1, [UsesTape], (N, N, N), strict = no, fused = yes,
        |env, n, a, b, c| a.flat_map_stream({ let e = env.clone(); move |x| InnerStream::new(&e, inner_items(x)) }),
        |n, a, b, c| a.into_iter().flat_map(inner_items));
    subj!(v, "flatten_stream", 1, [UsesTape], (N, N, N), strict = no, fused = yes,
        |env, n, a, b, c| a.map({ let e = env.clone(); move |x| InnerStream::new(&e, inner_items(x)) }).flatten_stream(),
        |n, a, b, c| a.into_iter().flat_map(inner_items));
    subj!(v, "stream(stream_compat)", 1, [], (N, N, N), strict = no, fused = no,
        |env, n, a, b, c| pull::stream(pull::stream_compat(a)),
        |n, a, b, c| a.into_iter());
    subj!(v, "either", 2, [UsesN], (N, N, N), strict = no, fused = yes,
        |env, n, a, b, c| if n % 2 == 0 { Either::Left(a) } else { Either::Right(b) },
        |n, a, b, c| if n % 2 == 0 { a.into_iter() } else { b.into_iter() });

    // ---- two- and three-stage pipelines -----------------------------------------------------
    subj!(v, "zip(flat_map(a),take(b,n))", 2, [UsesN], (N, N, N), strict = no, fused = no,
        |env, n, a, b, c| a.flat_map(inner_items).zip(b.take(n)),
        |n, a, b, c| a.into_iter().flat_map(inner_items).zip(b.into_iter().take(n)));
    subj!(v, "chain(take(a,n),b)", 2, [UsesN], (N, N, N), strict = no, fused = yes,
        |env, n, a, b, c| a.take(n).chain(b),
        |n, a, b, c| a.into_iter().take(n).chain(b));
    subj!(v, "chain(fuse(a),skip(b,n))", 2, [UsesN], (N, N, N), strict = no, fused = yes,
        |env, n, a, b, c| a.fuse().chain(b.skip(n)),
        |n, a, b, c| a.into_iter().chain(b.into_iter().skip(n)));
    subj!(v, "zip_longest(fuse(a),fuse(b))", 2, [], (N, N, N), strict = yes, fused = yes,
        |env, n, a, b, c| a.fuse().zip_longest(b.fuse()),
        |n, a, b, c| a.into_iter().zip_longest(b));
    subj!(v, "map(zip(a,b))", 2, [], (N, N, N), strict = no, fused = no,
        |env, n, a, b, c| a.zip(b).map(|(x, y)| x * 3 + y),
        |n, a, b, c| a.into_iter().zip(b).map(|(x, y)| x * 3 + y));
    subj!(v, "zip(zip(a,b),c)", 3, [], (N, N, N), strict = no, fused = no,
        |env, n, a, b, c| a.zip(b).zip(c),
        |n, a, b, c| a.into_iter().zip(b).zip(c));
    subj!(v, "chain(chain(a,b),c)", 3, [], (F, F, N), strict = no, fused = yes,
        |env, n, a, b, c| a.chain(b).chain(c),
        |n, a, b, c| a.into_iter().chain(b).chain(c));
    subj!(v, "zip_longest(filter(a),take(b,n))", 2, [UsesN], (F, N, N), strict = yes, fused = yes,
        |env, n, a, b, c| a.filter(|x| x % 2 == 0).zip_longest(b.take(n)),
        |n, a, b, c| a.into_iter().filter(|x| x % 2 == 0).zip_longest(b.into_iter().take(n)));
    subj!(v, "cross_singleton(flat_map(a),b)", 2, [], (N, N, N), strict = no, fused = yes,
        |env, n, a, b, c| a.flat_map(inner_items).cross_singleton(b),
        |n, a, b, c| { let s = b.first().copied(); a.into_iter().flat_map(inner_items).filter_map(move |x| s.map(|s| (x, s))) });
    subj!(v, "cross_singleton(a,chain(b,c))", 3, [], (N, F, N), strict = no, fused = yes,
        |env, n, a, b, c| a.cross_singleton(b.chain(c)),
        |n, a, b, c| { let s = b.iter().chain(c.iter()).next().copied(); a.into_iter().filter_map(move |x| s.map(|s| (x, s))) });
    subj!(v, "enumerate(zip(a,b))", 2, [], (N, N, N), strict = no, fused = no,
        |env, n, a, b, c| a.zip(b).enumerate(),
        |n, a, b, c| a.into_iter().zip(b).enumerate());
    subj!(v, "skip(flat_map(a),n)", 1, [UsesN], (N, N, N), strict = no, fused = yes,
        |env, n, a, b, c| a.flat_map(inner_items).skip(n),
        |n, a, b, c| a.into_iter().flat_map(inner_items).skip(n));
    subj!(v, "take(flat_map(a),n)", 1, [UsesN], (N, N, N), strict = yes, fused = yes,
        |env, n, a, b, c| a.flat_map(inner_items).take(n),
        |n, a, b, c| a.into_iter().flat_map(inner_items).take(n));
    subj!(v, "take_while(zip(a,b))", 2, [], (N, N, N), strict = no, fused = no,
        |env, n, a, b, c| a.zip(b).take_while(|(x, y)| x + y < 3),
        |n, a, b, c| a.into_iter().zip(b).take_while(|(x, y)| x + y < 3));
    subj!(v, "skip_while(chain(a,b))", 2, [], (F, N, N), strict = no, fused = yes,
        |env, n, a, b, c| a.chain(b).skip_while(|x| *x == 0),
        |n, a, b, c| a.into_iter().chain(b).skip_while(|x| *x == 0));
    subj!(v, "flat_map(zip(a,b))", 2, [], (N, N, N), strict = no, fused = no,
        |env, n, a, b, c| a.zip(b).flat_map(|(x, y)| vec![x; y.rem_euclid(3) as usize]),
        |n, a, b, c| a.into_iter().zip(b).flat_map(|(x, y)| vec![x; y.rem_euclid(3) as usize]));
    subj!(v, "zip(filter(a),filter_map(b))", 2, [], (N, N, N), strict = no, fused = no,
        |env, n, a, b, c| a.filter(|x| x % 2 == 0).zip(b.filter_map(fm)),
        |n, a, b, c| a.into_iter().filter(|x| x % 2 == 0).zip(b.into_iter().filter_map(fm)));
    subj!(v, "flat_map_stream(zip(a,b))", 2, [UsesTape], (N, N, N), strict = no, fused = no,
        |env, n, a, b, c| a.zip(b).flat_map_stream({ let e = env.clone(); move |(x, y)| InnerStream::new(&e, vec![x * 10 + y; y.rem_euclid(3) as usize]) }),
        |n, a, b, c| a.into_iter().zip(b).flat_map(|(x, y)| vec![x * 10 + y; y.rem_euclid(3) as usize]));
    subj!(v, "zip(flat_map_stream(a),b)", 2, [UsesTape], (N, N, N), strict = no, fused = no,
        |env, n, a, b, c| a.flat_map_stream({ let e = env.clone(); move |x| InnerStream::new(&e, inner_items(x)) }).zip(b),
        |n, a, b, c| a.into_iter().flat_map(inner_items).zip(b));
    subj!(v, "zip(filter_map_async(a),b)", 2, [UsesTape], (N, N, N), strict = no, fused = no,
        |env, n, a, b, c| a.filter_map_async({ let e = env.clone(); move |x| InnerFut::new(&e, fm(x)) }).zip(b),
        |n, a, b, c| a.into_iter().filter_map(fm).zip(b));
    subj!(v, "chain(flat_map_stream(a),b)", 2, [UsesTape], (F, N, N), strict = no, fused = yes,
        |env, n, a, b, c| a.flat_map_stream({ let e = env.clone(); move |x| InnerStream::new(&e, inner_items(x)) }).chain(b),
        |n, a, b, c| a.into_iter().flat_map(inner_items).chain(b));
    subj!(v, "zip_longest(flat_map(a),flat_map_stream(b))", 2, [UsesTape], (F, F, F), strict = yes, fused = yes,
        |env, n, a, b, c| a.flat_map(inner_items).zip_longest(b.flat_map_stream({ let e = env.clone(); move |x| InnerStream::new(&e, inner_items(x)) })),
        |n, a, b, c| a.into_iter().flat_map(inner_items).zip_longest(b.into_iter().flat_map(inner_items)));
    subj!(v, "take(zip_longest(a,b),n)", 2, [UsesN], (F, F, F), strict = yes, fused = yes,
        |env, n, a, b, c| a.zip_longest(b).take(n),
        |n, a, b, c| a.into_iter().zip_longest(b).take(n));
    subj!(v, "chain(fuse(take_while(a)),b)", 2, [], (N, N, N), strict = no, fused = yes,
        |env, n, a, b, c| a.take_while(|x| *x != 2).fuse().chain(b),
        |n, a, b, c| a.into_iter().take_while(|x| *x != 2).chain(b));
    subj!(v, "cross_singleton(zip(a,b),c)", 3, [], (N, N, N), strict = no, fused = no,
        |env, n, a, b, c| a.zip(b).cross_singleton(c),
        |n, a, b, c| { let s = c.first().copied(); a.into_iter().zip(b).filter_map(move |x| s.map(|s| (x, s))) });
    subj!(v, "zip(cross_singleton(a,b),c)", 3, [], (N, N, N), strict = no, fused = no,
        |env, n, a, b, c| a.cross_singleton(b).zip(c),
        |n, a, b, c| { let s = b.first().copied(); a.into_iter().filter_map(move |x| s.map(|s| (x, s))).zip(c) });
    subj!(v, "chain(fuse(zip(a,b)),c)", 3, [], (N, N, N), strict = no, fused = yes,
        |env, n, a, b, c| a.zip(b).fuse().chain(c.map(|x| (x, x))),
        |n, a, b, c| a.into_iter().zip(b).chain(c.into_iter().map(|x| (x, x))));
    subj!(v, "take(skip(a,n),2)", 1, [UsesN], (N, N, N), strict = yes, fused = yes,
        |env, n, a, b, c| a.skip(n).take(2),
        |n, a, b, c| a.into_iter().skip(n).take(2));
    subj!(v, "skip(take(a,n),1)", 1, [UsesN], (N, N, N), strict = yes, fused = yes,
        |env, n, a, b, c| a.take(n).skip(1),
        |n, a, b, c| a.into_iter().take(n).skip(1));
    subj!(v, "skip_while(enumerate(filter(a)))", 1, [], (N, N, N), strict = no, fused = yes,
        |env, n, a, b, c| a.filter(|x| *x != 1).enumerate().skip_while(|(i, _)| *i < 1),
        |n, a, b, c| a.into_iter().filter(|x| *x != 1).enumerate().skip_while(|(i, _)| *i < 1));
    subj!(v, "stream(stream_compat(zip(a,b)))", 2, [], (N, N, N), strict = no, fused = no,
        |env, n, a, b, c| pull::stream(pull::stream_compat(a.zip(b))),
        |n, a, b, c| a.into_iter().zip(b));
    subj!(v, "filter_map_async(flat_map_stream(a))", 1, [UsesTape], (N, N, N), strict = no, fused = yes,
        |env, n, a, b, c| a.flat_map_stream({ let e = env.clone(); move |x| InnerStream::new(&e, inner_items(x)) })
            .filter_map_async({ let e = env.clone(); move |x| InnerFut::new(&e, if x % 2 == 0 { Some(x + 1) } else { None }) }),
        |n, a, b, c| a.into_iter().flat_map(inner_items).filter_map(|x| if x % 2 == 0 { Some(x + 1) } else { None }));
    subj!(v, "flat_map(flat_map(a))", 1, [], (N, N, N), strict = no, fused = yes,
        |env, n, a, b, c| a.flat_map(inner_items).flat_map(|y| vec![y; (y % 2) as usize + 1]),
        |n, a, b, c| a.into_iter().flat_map(inner_items).flat_map(|y| vec![y; (y % 2) as usize + 1]));
    subj!(v, "chain(once,a)", 1, [], (N, N, N), strict = no, fused = yes,
        |env, n, a, b, c| pull::once(7i64).chain(a),
        |n, a, b, c| std::iter::once(7i64).chain(a));
    subj!(v, "chain(a,once)", 1, [], (F, F, F), strict = yes, fused = yes,
        |env, n, a, b, c| a.chain(pull::once(7i64)),
        |n, a, b, c| a.into_iter().chain(std::iter::once(7i64)));
    subj!(v, "zip(a,repeat)", 1, [], (N, N, N), strict = no, fused = no,
        |env, n, a, b, c| a.zip(pull::repeat(5i64)),
        |n, a, b, c| a.into_iter().zip(std::iter::repeat(5i64)));
    subj!(v, "zip(iter,a)", 1, [], (N, N, N), strict = no, fused = no,
        |env, n, a, b, c| pull::iter(vec![4i64, 5, 6]).zip(a),
        |n, a, b, c| vec![4i64, 5, 6].into_iter().zip(a));
    subj!(v, "zip_longest(a,empty)", 1, [], (F, F, F), strict = yes, fused = yes,
        |env, n, a, b, c| a.zip_longest(pull::empty::<i64>()),
        |n, a, b, c| a.into_iter().zip_longest(std::iter::empty::<i64>()));
    subj!(v, "zip(take(a,n),skip(b,1))", 2, [UsesN], (N, N, N), strict = no, fused = no,
        |env, n, a, b, c| a.take(n).zip(b.skip(1)),
        |n, a, b, c| a.into_iter().take(n).zip(b.into_iter().skip(1)));

    // ---- hand-written subjects (futures, external state, adapters) --------------------------
    v.push(PullSubject { name: "inspect", arity: 1, flags: &[], strict_is_fused: false, run: |c, k, o| if c.fused { run_inspect::<true>(c, k, o) } else { run_inspect::<false>(c, k, o) } });
    v.push(PullSubject { name: "collect", arity: 1, flags: &[], strict_is_fused: false, run: |c, k, o| if c.fused { run_collect::<true>(c, k, o) } else { run_collect::<false>(c, k, o) } });
    v.push(PullSubject { name: "collect(zip_longest(a,b))", arity: 2, flags: &[], strict_is_fused: true, run: run_collect_zl });
    v.push(PullSubject { name: "for_each", arity: 1, flags: &[], strict_is_fused: false, run: |c, k, o| if c.fused { run_for_each::<true>(c, k, o) } else { run_for_each::<false>(c, k, o) } });
    v.push(PullSubject { name: "for_each(zip(a,flat_map(b)))", arity: 2, flags: &[], strict_is_fused: false, run: |c, k, o| if c.fused { run_for_each_zip::<true>(c, k, o) } else { run_for_each_zip::<false>(c, k, o) } });
    v.push(PullSubject { name: "next", arity: 1, flags: &[], strict_is_fused: false, run: |c, k, o| if c.fused { run_next::<true>(c, k, o) } else { run_next::<false>(c, k, o) } });
    v.push(PullSubject { name: "accumulate_all(fold)", arity: 1, flags: &[], strict_is_fused: false, run: |c, k, o| if c.fused { run_accum::<true>(c, k, o, 0) } else { run_accum::<false>(c, k, o, 0) } });
    v.push(PullSubject { name: "accumulate_all(reduce)", arity: 1, flags: &[], strict_is_fused: false, run: |c, k, o| if c.fused { run_accum::<true>(c, k, o, 1) } else { run_accum::<false>(c, k, o, 1) } });
    v.push(PullSubject { name: "accumulate_all(fold_from)", arity: 1, flags: &[], strict_is_fused: false, run: |c, k, o| if c.fused { run_accum::<true>(c, k, o, 2) } else { run_accum::<false>(c, k, o, 2) } });
    v.push(PullSubject { name: "cross_singleton_state", arity: 2, flags: &[Flag::UsesN], strict_is_fused: false, run: |c, k, o| if c.fused { run_cs_state::<true>(c, k, o) } else { run_cs_state::<false>(c, k, o) } });
    v.push(PullSubject { name: "stream", arity: 1, flags: &[], strict_is_fused: false, run: |c, k, o| if c.fused { run_stream::<true>(c, k, o) } else { run_stream::<false>(c, k, o) } });
    v.push(PullSubject { name: "stream_ready", arity: 1, flags: &[], strict_is_fused: true, run: run_stream_ready });
    v.push(PullSubject { name: "poll_fn", arity: 1, flags: &[], strict_is_fused: true, run: run_poll_fn });
    v.push(PullSubject { name: "by_ref(take(n)) then rest", arity: 1, flags: &[Flag::UsesN], strict_is_fused: false, run: |c, k, o| if c.fused { run_by_ref::<true>(c, k, o) } else { run_by_ref::<false>(c, k, o) } });
    v
}

fn run_inspect<const F: bool>(case: &PullCase, known: &Known, obs: &mut Obs) -> Result<(), Fail> {
    let name = "inspect";
    let expected = items_of(&case.a);
    let env = Env::new(&case.tape);
    let a = Src::<i64, TaskC, F>::new(&env, &case.a, case.hint());
    let seen = Rc::new(std::cell::RefCell::new(vec![]));
    let p = a.inspect({
        let s = seen.clone();
        move |x| s.borrow_mut().push(*x)
    });
    drive(
        &Drive { name, env: &env, known, extra_polls: F, check_hints: true },
        p,
        &expected,
        obs,
    )?;
    if *seen.borrow() != expected {
        return Err(fail(name, "items", format!("closure saw {:?}, expected {:?}", seen.borrow(), expected)));
    }
    Ok(())
}

fn finish_future(obs: &mut Obs, mid: (bool, bool)) {
    obs.nontrivial(mid.1);
    obs.class(if mid.0 { "future-pending-mid" } else { "future-no-pending-mid" });
}

fn run_collect<const F: bool>(case: &PullCase, _known: &Known, obs: &mut Obs) -> Result<(), Fail> {
    let name = "collect";
    let expected: Vec<i64> = items_of(&case.a).into_iter().map(|x| x + 1).collect();
    let env = Env::new(&case.tape);
    let a = Src::<i64, SyncC, F>::new(&env, &case.a, case.hint());
    let mut mid = (false, false);
    let got: Vec<i64> = drive_future(name, &env, a.map(|x| x + 1).collect::<Vec<i64>>(), &mut mid)?;
    if got != expected {
        return Err(fail(name, "items", format!("collected {:?}, expected {:?}", got, expected)));
    }
    finish_future(obs, mid);
    Ok(())
}

fn run_collect_zl(case: &PullCase, _known: &Known, obs: &mut Obs) -> Result<(), Fail> {
    let name = "collect(zip_longest(a,b))";
    let expected: Vec<_> = items_of(&case.a).into_iter().zip_longest(items_of(&case.b)).collect();
    let env = Env::new(&case.tape);
    let a = Src::<i64, SyncC, true>::new(&env, &case.a, case.hint());
    let b = Src::<i64, TaskC, true>::new(&env, &case.b, case.hint());
    let mut mid = (false, false);
    let got: Vec<_> = drive_future(name, &env, a.zip_longest(b).collect::<Vec<_>>(), &mut mid)?;
    if got != expected {
        return Err(fail(name, "items", format!("collected {:?}, expected {:?}", got, expected)));
    }
    finish_future(obs, mid);
    Ok(())
}

fn run_for_each<const F: bool>(case: &PullCase, _known: &Known, obs: &mut Obs) -> Result<(), Fail> {
    let name = "for_each";
    let expected: Vec<i64> = items_of(&case.a).into_iter().filter(|x| *x != 1).collect();
    let env = Env::new(&case.tape);
    let a = Src::<i64, TaskC, F>::new(&env, &case.a, case.hint());
    let mut got = vec![];
    let mut mid = (false, false);
    drive_future(name, &env, a.filter(|x| *x != 1).for_each(|x| got.push(x)), &mut mid)?;
    if got != expected {
        return Err(fail(name, "items", format!("closure saw {:?}, expected {:?}", got, expected)));
    }
    finish_future(obs, mid);
    Ok(())
}

fn run_for_each_zip<const F: bool>(case: &PullCase, _known: &Known, obs: &mut Obs) -> Result<(), Fail> {
    let name = "for_each(zip(a,flat_map(b)))";
    let expected: Vec<(i64, i64)> = items_of(&case.a)
        .into_iter()
        .zip(items_of(&case.b).into_iter().flat_map(inner_items))
        .collect();
    let env = Env::new(&case.tape);
    let a = Src::<i64, SyncC, F>::new(&env, &case.a, case.hint());
    let b = Src::<i64, TaskC, F>::new(&env, &case.b, case.hint());
    let mut got = vec![];
    let mut mid = (false, false);
    drive_future(name, &env, a.zip(b.flat_map(inner_items)).for_each(|x| got.push(x)), &mut mid)?;
    if got != expected {
        return Err(fail(name, "items", format!("closure saw {:?}, expected {:?}", got, expected)));
    }
    finish_future(obs, mid);
    Ok(())
}

fn run_next<const F: bool>(case: &PullCase, _known: &Known, obs: &mut Obs) -> Result<(), Fail> {
    let name = "next";
    let expected: Vec<i64> = items_of(&case.a).into_iter().map(|x| x * 2).collect();
    let env = Env::new(&case.tape);
    let a = Src::<i64, SyncC, F>::new(&env, &case.a, case.hint());
    let mut p = a.map(|x| x * 2);
    let mut got = vec![];
    let mut mid = (false, false);
    loop {
        match drive_future(name, &env, (&mut p).next(), &mut mid)? {
            Some((x, ())) => got.push(x),
            None => break,
        }
        if got.len() > expected.len() {
            break;
        }
    }
    if got != expected {
        return Err(fail(name, "items", format!("next() sequence {:?}, expected {:?}", got, expected)));
    }
    finish_future(obs, mid);
    Ok(())
}

fn run_accum<const F: bool>(case: &PullCase, _known: &Known, obs: &mut Obs, which: u8) -> Result<(), Fail> {
    let name = ["accumulate_all(fold)", "accumulate_all(reduce)", "accumulate_all(fold_from)"][which as usize];
    let items: Vec<(i64, i64)> = items_of(&case.a).into_iter().enumerate().map(|(i, x)| (x % 2, x * 10 + i as i64)).collect();
    // reference: per key, the fold of its values in arrival order
    let mut expected: BTreeMap<i64, Vec<i64>> = BTreeMap::new();
    for (k, v) in &items {
        expected.entry(*k).or_default().push(*v);
    }
    let env = Env::new(&case.tape);
    let a = Src::<i64, TaskC, F>::new(&env, &case.a, case.hint());
    let mut idx = 0i64;
    let prev = a.map(move |x| {
        let r = (x % 2, x * 10 + idx);
        idx += 1;
        r
    });
    let mut map: std::collections::HashMap<i64, Vec<i64>> = std::collections::HashMap::new();
    let mut mid = (false, false);
    match which {
        0 => {
            let mut acc = pull::Fold::new(Vec::new, |acc: &mut Vec<i64>, v: i64| acc.push(v));
            drive_future(name, &env, pull::accumulate_all(&mut acc, &mut map, prev), &mut mid)?;
        }
        1 => {
            // reduce over Vec values: items are pre-wrapped as singleton vectors
            let prev = prev.map(|(k, v)| (k, vec![v]));
            let mut acc = pull::Reduce::new(|acc: &mut Vec<i64>, v: Vec<i64>| acc.extend(v));
            drive_future(name, &env, pull::accumulate_all(&mut acc, &mut map, prev), &mut mid)?;
        }
        _ => {
            let mut acc = pull::FoldFrom::new(|v: i64| vec![v], |acc: &mut Vec<i64>, v: i64| acc.push(v));
            drive_future(name, &env, pull::accumulate_all(&mut acc, &mut map, prev), &mut mid)?;
        }
    }
    let got: BTreeMap<i64, Vec<i64>> = map.into_iter().collect();
    if got != expected {
        return Err(fail(name, "items", format!("accumulated {:?}, expected {:?}", got, expected)));
    }
    finish_future(obs, mid);
    Ok(())
}

fn run_cs_state<const F: bool>(case: &PullCase, known: &Known, obs: &mut Obs) -> Result<(), Fail> {
    let name = "cross_singleton_state";
    // n odd: the external state is already populated (persisted from an earlier tick)
    let preset = if case.n % 2 == 1 { Some(40 + case.n as i64) } else { None };
    let b_items = items_of(&case.b);
    let single = preset.or(b_items.first().copied());
    let expected: Vec<(i64, i64)> = items_of(&case.a).into_iter().filter_map(|x| single.map(|s| (x, s))).collect();
    let env = Env::new(&case.tape);
    let a = Src::<i64, SyncC, F>::new(&env, &case.a, case.hint());
    let b = Src::<i64, TaskC, F>::new(&env, &case.b, case.hint());
    let mut state = preset;
    {
        let p = a.cross_singleton_state(b, &mut state);
        drive(&Drive { name, env: &env, known, extra_polls: F, check_hints: true }, p, &expected, obs)?;
    }
    if state != single {
        return Err(fail(name, "state", format!("external singleton state is {:?} after the run, expected {:?}", state, single)));
    }
    Ok(())
}

fn run_stream<const F: bool>(case: &PullCase, known: &Known, obs: &mut Obs) -> Result<(), Fail> {
    let name = "stream";
    let expected = items_of(&case.a);
    let env = Env::new(&case.tape);
    let s = SrcStream::<i64, F>::new(&env, &case.a);
    drive(&Drive { name, env: &env, known, extra_polls: F, check_hints: true }, pull::stream(s), &expected, obs)
}

/// `stream_ready` treats `Pending` as the end of the current batch and can be polled again
/// later: the batches must be exactly the script split at its `Pending` steps.
fn run_stream_ready(case: &PullCase, _known: &Known, obs: &mut Obs) -> Result<(), Fail> {
    let name = "stream_ready";
    let mut expected: Vec<Vec<i64>> = vec![vec![]];
    for s in &case.a {
        match s {
            Some(x) => expected.last_mut().unwrap().push(*x),
            None => expected.push(vec![]),
        }
    }
    let env = Env::new(&case.tape);
    let s = SrcStream::<i64, true>::new(&env, &case.a);
    let mut p = std::pin::pin!(pull::stream_ready(s, std::task::Waker::noop().clone()));
    let mut got: Vec<Vec<i64>> = vec![];
    for _ in 0..expected.len() {
        let mut batch = vec![];
        loop {
            match pull_once(p.as_mut()) {
                PullStep::Ready(x, ()) => batch.push(x),
                PullStep::Ended(_) => break,
                PullStep::Pending(never) => match never {},
            }
            if batch.len() > case.a.len() {
                break;
            }
        }
        got.push(batch);
    }
    if got != expected {
        return Err(fail(name, "items", format!("batches {:?}, expected {:?}", got, expected)));
    }
    obs.nontrivial(expected.len() > 1 && expected.iter().filter(|b| !b.is_empty()).count() > 1);
    Ok(())
}

fn run_poll_fn(case: &PullCase, known: &Known, obs: &mut Obs) -> Result<(), Fail> {
    let name = "poll_fn";
    let expected: Vec<i64> = items_of(&case.a).into_iter().map(|x| x + 3).collect();
    let env = Env::new(&case.tape);
    // the script is replayed by a closure; `poll_fn` pulls are neither fused nor size-hinted
    let mut inner = Src::<i64, SyncC, true>::new(&env, &case.a, case.hint());
    let p = pull::poll_fn(move |_cx| std::pin::Pin::new(&mut inner).pull(&mut ()));
    drive(&Drive { name, env: &env, known, extra_polls: false, check_hints: true }, p.map(|x| x + 3), &expected, obs)
}

/// `&mut P: Pull`: take the first n items through `by_ref()`, then keep pulling the same pull.
fn run_by_ref<const F: bool>(case: &PullCase, known: &Known, obs: &mut Obs) -> Result<(), Fail> {
    let name = "by_ref(take(n)) then rest";
    let items: Vec<i64> = items_of(&case.a).into_iter().map(|x| x + 1).collect();
    let n = (case.n as usize).min(items.len());
    let env = Env::new(&case.tape);
    let mut p = Src::<i64, TaskC, F>::new(&env, &case.a, case.hint()).map(|x| x + 1);
    let d = Drive { name, env: &env, known, extra_polls: true, check_hints: true };
    // phase 1 only runs when the source holds more than n items, so that `take` ends by count
    // and never observes the source's end (a second phase on a non-fused source needs that)
    if items.len() > n {
        drive(&d, p.by_ref().take(n), &items[..n], obs)?;
        drive(&Drive { extra_polls: F, ..d }, p, &items[n..], obs)
    } else {
        drive(&Drive { extra_polls: F, ..d }, p.by_ref(), &items, obs)
    }
}

// ---------------------------------------------------------------------------------------------
// Domains
// ---------------------------------------------------------------------------------------------

struct Bounds {
    /// (max_len, max_pendings) per input
    a: (usize, usize),
    b: (usize, usize),
    c: (usize, usize),
    tape: (usize, usize),
    ns: Vec<u8>,
}

fn bounds(s: &PullSubject, tier: Tier, fused_cfg: bool) -> Bounds {
    let thorough = tier == Tier::Thorough;
    let tape_heavy = s.has(Flag::UsesTape);
    let uses_n = s.has(Flag::UsesN);
    // the all-fused configuration only adds the fused-ness clause: smaller bounds
    let shrink = fused_cfg && !s.strict_is_fused;
    let z = (0, 0);
    let ns = if uses_n { if thorough { vec![0, 1, 2, 3, 5] } else { vec![0, 1, 2, 3] } } else { vec![0] };
    let tape = if tape_heavy {
        match (s.arity, thorough, shrink) {
            (1, false, false) => (5, 2),
            (1, true, false) => (6, 3),
            (_, false, false) => (4, 1),
            (_, true, false) => (5, 2),
            (_, _, true) => (3, 1),
        }
    } else {
        z
    };
    match s.arity {
        1 => {
            let a = match (thorough, shrink, tape_heavy) {
                (false, false, false) => (5, 2),
                (false, false, true) => (4, 2),
                (false, true, _) => (3, 1),
                (true, false, false) => (6, 3),
                (true, false, true) => (4, 2),
                (true, true, _) => (4, 2),
            };
            Bounds { a, b: z, c: z, tape, ns }
        }
        2 => {
            let (a, b) = match (thorough, shrink, tape_heavy || uses_n) {
                (false, false, false) => ((3, 2), (3, 2)),
                (false, false, true) => ((3, 2), (2, 2)),
                (false, true, _) => ((2, 1), (2, 1)),
                (true, false, false) => ((4, 2), (4, 1)),
                (true, false, true) => ((3, 2), (3, 2)),
                (true, true, _) => ((3, 1), (3, 1)),
            };
            Bounds { a, b, c: z, tape, ns }
        }
        _ => {
            let (a, b, c) = match (thorough, shrink) {
                (false, false) => ((2, 2), (2, 1), (2, 1)),
                (false, true) => ((1, 1), (1, 1), (1, 1)),
                (true, false) => ((2, 2), (2, 2), (2, 2)),
                (true, true) => ((2, 1), (2, 1), (2, 1)),
            };
            Bounds { a, b, c, tape, ns }
        }
    }
}

fn enumerate_cases(s: &PullSubject, tier: Tier) -> impl Iterator<Item = PullCase> {
    let vals = [0i64, 1, 2];
    let mut cfgs = vec![false];
    if !s.strict_is_fused {
        cfgs.push(true);
    }
    let mut parts = vec![];
    for fused in cfgs {
        let b = bounds(s, tier, fused);
        let sa = Rc::new(scripts(b.a.0, &vals, b.a.1));
        let sb = Rc::new(if s.arity >= 2 { scripts(b.b.0, &vals, b.b.1) } else { vec![vec![]] });
        let sc = Rc::new(if s.arity >= 3 { scripts(b.c.0, &vals, b.c.1) } else { vec![vec![]] });
        let tp = Rc::new(tapes(b.tape.0, b.tape.1));
        let ns = Rc::new(b.ns);
        parts.push((fused, sa, sb, sc, tp, ns));
    }
    parts.into_iter().flat_map(|(fused, sa, sb, sc, tp, ns)| {
        let (na, nb, nc, nt, nn) = (sa.len(), sb.len(), sc.len(), tp.len(), ns.len());
        (0..na * nb * nc * nt * nn).map(move |mut i| {
            let n = ns[i % nn];
            i /= nn;
            let tape = tp[i % nt].clone();
            i /= nt;
            let c = sc[i % nc].clone();
            i /= nc;
            let b = sb[i % nb].clone();
            i /= nb;
            let a = sa[i].clone();
            PullCase { a, b, c, tape, n, fused, lo_slack: 0, hi_slack: Some(0) }
        })
    })
}

fn script_strategy(max_len: usize) -> impl Strategy<Value = Script<i64>> {
    // each item is preceded by 0..=2 pendings (mostly 0), plus up to 2 trailing pendings
    (
        prop::collection::vec((0i64..=5, prop::sample::select(vec![0u8, 0, 0, 1, 1, 2])), 0..=max_len),
        prop::sample::select(vec![0u8, 0, 1, 2]),
    )
        .prop_map(|(items, trail)| {
            let mut s = vec![];
            for (x, p) in items {
                for _ in 0..p {
                    s.push(None);
                }
                s.push(Some(x));
            }
            for _ in 0..trail {
                s.push(None);
            }
            s
        })
}

fn case_strategy(arity: u8) -> impl Strategy<Value = PullCase> {
    (
        script_strategy(16),
        script_strategy(if arity >= 2 { 16 } else { 0 }),
        script_strategy(if arity >= 3 { 12 } else { 0 }),
        prop::collection::vec(prop::sample::select(vec![false, false, true]), 0..=24),
        0u8..=9,
        any::<bool>(),
        0u8..=2,
        prop::option::weighted(0.8, 0u8..=2),
    )
        .prop_map(|(a, b, c, tape, n, fused, lo_slack, hi_slack)| PullCase { a, b, c, tape, n, fused, lo_slack, hi_slack })
}

pub fn run(ctx: &mut Ctx) {
    let known: Known = ctx
        .known
        .known
        .keys()
        .filter(|(p, _)| p == "C11")
        .map(|(_, s)| s.clone())
        .collect();
    ctx.rule = "Per subject (single pull combinator or 2-3 stage pipeline; 73 subjects), one case = item lists over {0,1,2} \
                for each input x a placement of <=k Pending steps in each input script (every multiset of slots, bounded-exhaustive; \
                k=2 for short inputs) x pending tape for scripted inner streams/futures x take/skip parameter x source kind \
                (strict: non-fused sources wherever the bounds allow; all-fused), plus seeded random cases (<=16 items, values 0..5, \
                random pendings, size-hint slack). Oracle: std::iter pipeline on the plain lists; Pending only when an upstream \
                pended in that poll; termination; 5 extra polls after Ended for FusedPull subjects; size_hint brackets the remaining \
                output at every step. Non-trivial: the subject answered Pending after at least one upstream item had been handed \
                out and produced an output item afterwards (an item/state is held across the Pending); distinct = structural hash \
                of (subject, case)."
        .into();
    ctx.assume("non-fused scripted sources answer Ended again when polled after their end and record the poll; any such poll is reported (the repository's TestPull panics there)");
    ctx.assume("stream_ready: size hints are not compared (the hint describes the whole stream, the pull ends at the first Pending by design)");
    ctx.floor = 1000;
    let tier = ctx.tier();
    let only = ctx.args.extra.get("only").cloned();
    for s in subjects() {
        if let Some(o) = &only {
            if !s.name.contains(o.as_str()) {
                continue;
            }
        }
        let name = s.name;
        let run_fn = s.run;
        // a panic inside the code under test is a failure of this subject
        let run = |c: &PullCase, o: &mut Obs| -> Result<(), Fail> {
            match std::panic::catch_unwind(std::panic::AssertUnwindSafe(|| run_fn(c, &known, &mut *o))) {
                Ok(r) => r,
                Err(p) => Err(fail(name, &format!("panic:{}", vcommon::panic_sig(&p)), format!("panic: {}", vcommon::panic_msg(&p)))),
            }
        };
        let sub = format!("x/{}", s.name);
        ctx.check_all(&sub, enumerate_cases(&s, tier), &run);
        let sub = format!("r/{}", s.name);
        ctx.check(&sub, tier.pick(1000, 20000), case_strategy(s.arity), &run);
    }
}
