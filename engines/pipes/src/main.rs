//! Engine `pipes`: C11 (pull combinators), C12 (push combinators), C13 (symmetric hash join)
//! of crate dfir_pipes. See /verif/DESIGN.md §4.

mod c11;
mod c12;
mod c13;
mod script;

use vcommon::{Args, Ctx};

fn main() {
    let args = Args::parse();
    let mut ctx = Ctx::new(args);
    vcommon::quiet_panics();
    match ctx.prop().to_string().as_str() {
        "C11" => c11::run(&mut ctx),
        "C12" => c12::run(&mut ctx),
        "C13" => c13::run(&mut ctx),
        other => {
            eprintln!("engine pipes does not serve property {other}");
            std::process::exit(2);
        }
    }
    ctx.finish();
}
