//! C12 — push combinators deliver the right items and honour the push protocol
//! (DESIGN.md §4 C12).
//!
//! Every leaf downstream is a recording push with scripted `poll_ready` / `poll_finalize`
//! answers. The upstream driver follows the protocol (poll_ready until Done, start_send, ...,
//! poll_finalize until Done). Checked per leaf: the items (reference semantics) and exactly
//! the three protocol clauses of the property:
//!  (a) every start_send on D is preceded, since D's previous start_send, by a poll_ready on D
//!      whose latest answer was Done (the rule of the repository's own `TestPush`);
//!  (b) no start_send on D after poll_finalize was first called on D;
//!  (c) when the subject's poll_finalize returns Done, every leaf has answered Done to a
//!      poll_finalize after its last item.
//! Repeated poll_ready / poll_finalize calls on a leaf that already answered Done are recorded
//! but are not violations.

use std::cell::{Cell, RefCell};
use std::collections::{BTreeMap, HashMap, VecDeque};
use std::fmt::Debug;
use std::future::Future;
use std::marker::PhantomData;
use std::pin::Pin;
use std::rc::Rc;
use std::task::{Context as TaskCx, Poll, Waker};

use dfir_pipes::pull::Pull;
use dfir_pipes::push::{self, Push, PushStep};
use dfir_pipes::Yes;
use lattices::Max;
use serde::{Deserialize, Serialize};
use vcommon::proptest::prelude::*;
use vcommon::{Ctx, Fail, Obs, Tier};

use crate::c11::inner_items;
use crate::script::*;

#[derive(Clone, Debug, Default, Serialize, Deserialize)]
pub struct LeafLog {
    /// answers of successive poll_ready calls (`true` = Pending); exhausted = Done
    pub ready: Vec<bool>,
    /// number of Pending answers of poll_finalize before the first Done (Done ever after)
    pub fin: u8,
}

#[derive(Clone, Debug, Serialize, Deserialize)]
pub struct PushCase {
    pub items: Vec<i64>,
    /// items of the second tick (multi-tick subjects only)
    pub items2: Vec<i64>,
    pub leaves: Vec<LeafLog>,
    /// pending tape of scripted inner streams / futures
    pub tape: Vec<bool>,
    /// `send_push`: slots at which the pull source answers Pending
    pub src_pend: Vec<u8>,
    /// call size_hint with the exact item count before pushing
    pub hint: bool,
    /// subject-specific variant (persist replay, resolve_futures waker, reduce initial value)
    pub flag: bool,
}

#[derive(Clone, Copy, PartialEq, Eq, Debug)]
enum Phase {
    Ready,
    Send,
    Finalize,
}

pub struct PEnv {
    pub base: Rc<Env>,
    phase: Cell<Phase>,
    /// number of the current call made by the driver on the subject
    call: Cell<u32>,
}

#[derive(Default)]
pub struct LeafCore {
    /// display label (with tick) and signature label (leaf index only)
    label: String,
    sig_label: String,
    log: LeafLog,
    ready_pos: usize,
    fin_left: u8,
    ready: bool,
    fin_called: bool,
    fin_done_since_send: bool,
    sends: usize,
    viol: Vec<(&'static str, String)>,
    /// driver call numbers during which this leaf answered Pending
    pend_calls: Vec<u32>,
    ready_pend_seen: bool,
    /// a send happened outside the driver's start_send after this leaf had answered Pending
    deferred_after_pend: bool,
    pend_in_finalize: bool,
    polls_after_fin_done: u32,
}

pub struct LeafState<T> {
    core: RefCell<LeafCore>,
    items: RefCell<Vec<T>>,
}

trait CoreView {
    fn core(&self) -> std::cell::Ref<'_, LeafCore>;
}
impl<T> CoreView for LeafState<T> {
    fn core(&self) -> std::cell::Ref<'_, LeafCore> {
        self.core.borrow()
    }
}

/// Recording leaf: a `Push<T, ()>` (and a `futures::Sink<T>`) with scripted answers.
pub struct Leaf<T, C> {
    st: Rc<LeafState<T>>,
    env: Rc<PEnv>,
    _c: PhantomData<fn() -> C>,
}
impl<T, C> Unpin for Leaf<T, C> {}

impl<T, C> Leaf<T, C> {
    fn do_ready(&self) -> bool {
        let mut c = self.st.core.borrow_mut();
        let pending = c.log.ready.get(c.ready_pos).copied().unwrap_or(false);
        c.ready_pos += 1;
        if c.fin_called && c.fin_left == 0 && c.fin_done_since_send {
            c.polls_after_fin_done += 1;
        }
        if pending {
            self.env.base.pend.set(self.env.base.pend.get() + 1);
            c.ready = false;
            c.ready_pend_seen = true;
            let call = self.env.call.get();
            c.pend_calls.push(call);
            if self.env.phase.get() == Phase::Finalize {
                c.pend_in_finalize = true;
            }
        } else {
            c.ready = true;
        }
        !pending
    }
    fn do_send(&self, item: T)
    where
        T: Debug,
    {
        let mut c = self.st.core.borrow_mut();
        if !c.ready {
            let n = c.sends;
            c.viol.push((
                "a:send-without-ready",
                format!("start_send #{n} ({item:?}) without a poll_ready answering Done since the previous start_send"),
            ));
        }
        c.ready = false;
        if c.fin_called {
            let n = c.sends;
            c.viol.push((
                "b:send-after-finalize",
                format!("start_send #{n} ({item:?}) after poll_finalize had been called on this downstream"),
            ));
        }
        c.sends += 1;
        c.fin_done_since_send = false;
        if c.ready_pend_seen && self.env.phase.get() != Phase::Send {
            c.deferred_after_pend = true;
        }
        drop(c);
        self.st.items.borrow_mut().push(item);
    }
    fn do_finalize(&self) -> bool {
        let mut c = self.st.core.borrow_mut();
        c.fin_called = true;
        if c.fin_left > 0 {
            c.fin_left -= 1;
            self.env.base.pend.set(self.env.base.pend.get() + 1);
            let call = self.env.call.get();
            c.pend_calls.push(call);
            c.pend_in_finalize = true;
            false
        } else {
            if c.fin_done_since_send {
                c.polls_after_fin_done += 1;
            }
            c.fin_done_since_send = true;
            true
        }
    }
}

impl<T: Debug, C: CtxSel> Push<T, ()> for Leaf<T, C> {
    type Ctx<'ctx> = C::Ctx<'ctx>;
    type CanPend = Yes;
    fn poll_ready(self: Pin<&mut Self>, _ctx: &mut Self::Ctx<'_>) -> PushStep<Yes> {
        if self.do_ready() {
            PushStep::Done
        } else {
            PushStep::Pending(Yes)
        }
    }
    fn start_send(self: Pin<&mut Self>, item: T, _meta: ()) {
        self.do_send(item)
    }
    fn poll_finalize(self: Pin<&mut Self>, _ctx: &mut Self::Ctx<'_>) -> PushStep<Yes> {
        if self.do_finalize() {
            PushStep::Done
        } else {
            PushStep::Pending(Yes)
        }
    }
    fn size_hint(self: Pin<&mut Self>, _hint: (usize, Option<usize>)) {}
}

impl<T: Debug, C> dfir_pipes::Sink<T> for Leaf<T, C> {
    type Error = std::convert::Infallible;
    fn poll_ready(self: Pin<&mut Self>, cx: &mut TaskCx<'_>) -> Poll<Result<(), Self::Error>> {
        if self.do_ready() {
            Poll::Ready(Ok(()))
        } else {
            cx.waker().wake_by_ref();
            Poll::Pending
        }
    }
    fn start_send(self: Pin<&mut Self>, item: T) -> Result<(), Self::Error> {
        self.do_send(item);
        Ok(())
    }
    fn poll_flush(self: Pin<&mut Self>, cx: &mut TaskCx<'_>) -> Poll<Result<(), Self::Error>> {
        if self.do_finalize() {
            Poll::Ready(Ok(()))
        } else {
            cx.waker().wake_by_ref();
            Poll::Pending
        }
    }
    fn poll_close(self: Pin<&mut Self>, cx: &mut TaskCx<'_>) -> Poll<Result<(), Self::Error>> {
        dfir_pipes::Sink::<T>::poll_flush(self, cx)
    }
}

/// FIFO future queue for `resolve_futures` (outputs in insertion order, like `FuturesOrdered`).
pub struct OrderedQ<F> {
    q: VecDeque<F>,
}
impl<F> Default for OrderedQ<F> {
    fn default() -> Self {
        OrderedQ { q: VecDeque::new() }
    }
}
impl<F> Extend<F> for OrderedQ<F> {
    fn extend<I: IntoIterator<Item = F>>(&mut self, iter: I) {
        self.q.extend(iter)
    }
}
impl<F: Future + Unpin> dfir_pipes::Stream for OrderedQ<F> {
    type Item = F::Output;
    fn poll_next(self: Pin<&mut Self>, cx: &mut TaskCx<'_>) -> Poll<Option<F::Output>> {
        let this = self.get_mut();
        match this.q.front_mut() {
            None => Poll::Ready(None),
            Some(f) => match Pin::new(f).poll(cx) {
                Poll::Ready(out) => {
                    this.q.pop_front();
                    Poll::Ready(Some(out))
                }
                Poll::Pending => Poll::Pending,
            },
        }
    }
}
impl<F: Future + Unpin> dfir_pipes::FusedStream for OrderedQ<F> {
    fn is_terminated(&self) -> bool {
        false
    }
}

#[derive(Clone, Copy)]
pub enum Order {
    Seq,
    Bag,
}

pub struct Harness<'a> {
    pub case: &'a PushCase,
    pub name: &'static str,
    pub env: Rc<PEnv>,
    leaves: Vec<Rc<dyn CoreView>>,
    checked_upto: usize,
    fails: Vec<Fail>,
    budget: u64,
    aborted: bool,
}

impl<'a> Harness<'a> {
    fn new(name: &'static str, case: &'a PushCase) -> Self {
        let base = Env::new(&case.tape);
        // every Pending answer of a correct subject consumes at least one scripted Pending answer
        // (leaf logs are added when a leaf is created, see `leaf_c`)
        let scripted: u64 = case.tape.iter().filter(|b| **b).count() as u64 + case.src_pend.len() as u64;
        Harness {
            case,
            name,
            env: Rc::new(PEnv { base, phase: Cell::new(Phase::Ready), call: Cell::new(0) }),
            leaves: vec![],
            checked_upto: 0,
            fails: vec![],
            budget: 2 * scripted + 4 * (case.items.len() + case.items2.len()) as u64 + 32,
            aborted: false,
        }
    }

    fn fail(&mut self, kind: String, msg: String) {
        self.fails.push(Fail::new(format!("push/{}:{kind}", self.name), msg));
    }

    /// A fresh recording leaf answering from the `idx`-th leaf log of the case.
    pub fn leaf_c<T: 'static, C>(&mut self, idx: usize, label: &str) -> (Leaf<T, C>, Rc<LeafState<T>>) {
        let log = self.case.leaves.get(idx).cloned().unwrap_or_default();
        self.budget += 2 * (log.ready.iter().filter(|b| **b).count() as u64 + log.fin as u64);
        let st = Rc::new(LeafState {
            core: RefCell::new(LeafCore { label: label.to_string(), sig_label: format!("leaf{idx}"), fin_left: log.fin, log, ..Default::default() }),
            items: RefCell::new(vec![]),
        });
        self.leaves.push(st.clone());
        (Leaf { st: st.clone(), env: self.env.clone(), _c: PhantomData }, st)
    }
    pub fn leaf<T: 'static>(&mut self, idx: usize) -> (Leaf<T, SyncC>, Rc<LeafState<T>>) {
        self.leaf_c::<T, SyncC>(idx, &format!("leaf{idx}"))
    }
    pub fn leaf_task<T: 'static>(&mut self, idx: usize) -> (Leaf<T, TaskC>, Rc<LeafState<T>>) {
        self.leaf_c::<T, TaskC>(idx, &format!("leaf{idx}"))
    }
    pub fn leaf_tick<T: 'static>(&mut self, idx: usize, tick: usize) -> (Leaf<T, SyncC>, Rc<LeafState<T>>) {
        self.leaf_c::<T, SyncC>(idx, &format!("leaf{idx}@tick{tick}"))
    }

    fn spend(&mut self, what: &str) -> bool {
        if self.budget == 0 {
            if !self.aborted {
                self.aborted = true;
                self.fail(
                    "no-termination".into(),
                    format!("{what} keeps answering Pending after every scripted Pending has been consumed"),
                );
            }
            return false;
        }
        self.budget -= 1;
        true
    }

    /// Push `items` through `p` following the protocol, then finalize it.
    pub fn run<P, I>(&mut self, p: P, items: Vec<I>)
    where
        P: Push<I, ()>,
    {
        if self.aborted {
            return;
        }
        let mut p = std::pin::pin!(p);
        let mut cx = TaskCx::from_waker(Waker::noop());
        let env = self.env.clone();
        let n = items.len();
        if self.case.hint {
            p.as_mut().size_hint((n, Some(n)));
        }
        for item in items {
            loop {
                env.call.set(env.call.get() + 1);
                env.phase.set(Phase::Ready);
                let ctx = <P::Ctx<'_> as dfir_pipes::Context<'_>>::from_task(&mut cx);
                match p.as_mut().poll_ready(ctx) {
                    PushStep::Done => break,
                    PushStep::Pending(_) => {
                        if !self.spend("poll_ready") {
                            return;
                        }
                    }
                }
            }
            env.call.set(env.call.get() + 1);
            env.phase.set(Phase::Send);
            p.as_mut().start_send(item, ());
        }
        loop {
            env.call.set(env.call.get() + 1);
            env.phase.set(Phase::Finalize);
            let ctx = <P::Ctx<'_> as dfir_pipes::Context<'_>>::from_task(&mut cx);
            match p.as_mut().poll_finalize(ctx) {
                PushStep::Done => break,
                PushStep::Pending(_) => {
                    if !self.spend("poll_finalize") {
                        return;
                    }
                }
            }
        }
        self.check_finalized();
    }

    /// Same protocol through the `futures::Sink` interface (`SinkCompat`).
    pub fn run_sink<S, I>(&mut self, s: S, items: Vec<I>)
    where
        S: dfir_pipes::Sink<I>,
        S::Error: Debug,
    {
        let mut s = std::pin::pin!(s);
        let mut cx = TaskCx::from_waker(Waker::noop());
        let env = self.env.clone();
        for item in items {
            loop {
                env.call.set(env.call.get() + 1);
                env.phase.set(Phase::Ready);
                match s.as_mut().poll_ready(&mut cx) {
                    Poll::Ready(r) => {
                        r.unwrap();
                        break;
                    }
                    Poll::Pending => {
                        if !self.spend("Sink::poll_ready") {
                            return;
                        }
                    }
                }
            }
            env.call.set(env.call.get() + 1);
            env.phase.set(Phase::Send);
            s.as_mut().start_send(item).unwrap();
        }
        loop {
            env.call.set(env.call.get() + 1);
            env.phase.set(Phase::Finalize);
            match s.as_mut().poll_close(&mut cx) {
                Poll::Ready(r) => {
                    r.unwrap();
                    break;
                }
                Poll::Pending => {
                    if !self.spend("Sink::poll_close") {
                        return;
                    }
                }
            }
        }
        self.check_finalized();
    }

    /// Drive a future (`send_push`) to completion.
    pub fn run_future<F: Future<Output = ()>>(&mut self, f: F) {
        let mut f = std::pin::pin!(f);
        let mut cx = TaskCx::from_waker(Waker::noop());
        let env = self.env.clone();
        loop {
            env.call.set(env.call.get() + 1);
            env.phase.set(Phase::Ready);
            match f.as_mut().poll(&mut cx) {
                Poll::Ready(()) => break,
                Poll::Pending => {
                    if !self.spend("send_push future") {
                        return;
                    }
                }
            }
        }
        self.check_finalized();
    }

    /// Clause (c) for every leaf created since the previous run.
    fn check_finalized(&mut self) {
        let mut errs = vec![];
        for l in &self.leaves[self.checked_upto..] {
            let c = l.core();
            if !(c.fin_called && c.fin_left == 0 && c.fin_done_since_send) {
                errs.push((
                    format!("{}:c:not-finalized", c.sig_label),
                    format!(
                        "subject's poll_finalize returned Done but {} has not answered Done to a poll_finalize after its last item ({} items; poll_finalize called: {}, scripted Pending answers left: {})",
                        c.label, c.sends, c.fin_called, c.fin_left
                    ),
                ));
            }
        }
        self.checked_upto = self.leaves.len();
        for (k, m) in errs {
            self.fail(k, m);
        }
    }

    pub fn expect<T: Clone + Debug + Ord>(&mut self, st: &Rc<LeafState<T>>, mut expected: Vec<T>, order: Order) {
        if self.aborted {
            return;
        }
        let label = st.core.borrow().label.clone();
        let sig_label = st.core.borrow().sig_label.clone();
        let mut got = st.items.borrow().clone();
        if let Order::Bag = order {
            got.sort();
            expected.sort();
        }
        if got != expected {
            let kind = if is_subsequence(&got, &expected) {
                "items-lost"
            } else if is_subsequence(&expected, &got) {
                "items-duplicated"
            } else {
                "items-wrong"
            };
            self.fail(format!("{sig_label}:{kind}"), format!("{label} received {:?}, expected {:?}", got, expected));
        }
    }

    pub fn expect_eq<V: PartialEq + Debug>(&mut self, what: &str, got: V, expected: V) {
        if self.aborted {
            return;
        }
        if got != expected {
            self.fail(format!("{what}:wrong"), format!("{what} is {:?}, expected {:?}", got, expected));
        }
    }

    fn finish(mut self, known: &Known, obs: &mut Obs) -> Result<(), Fail> {
        // protocol clauses (a), (b) recorded by the leaves
        let mut proto = vec![];
        for l in &self.leaves {
            let c = l.core();
            for (k, m) in &c.viol {
                proto.push((format!("{}:{k}", c.sig_label), format!("{}: {m}", c.label)));
            }
        }
        for (k, m) in proto {
            // one failure per (leaf, clause)
            if !self.fails.iter().any(|f| f.sig.ends_with(&k)) {
                self.fail(k, m);
            }
        }
        // non-trivial rule
        let pend_leaves: Vec<Vec<u32>> = self.leaves.iter().map(|l| l.core().pend_calls.clone()).filter(|p| !p.is_empty()).collect();
        let multi = pend_leaves.len() >= 2
            && pend_leaves.iter().enumerate().any(|(i, a)| {
                pend_leaves.iter().skip(i + 1).any(|b| a.iter().any(|x| b.iter().any(|y| x != y)))
            });
        let in_fin = self.leaves.iter().any(|l| l.core().pend_in_finalize);
        let deferred = self.leaves.iter().any(|l| l.core().deferred_after_pend);
        obs.nontrivial(multi || in_fin || deferred);
        if multi {
            obs.class("leaves-pending-on-different-calls");
        }
        if in_fin {
            obs.class("pending-during-finalize");
        }
        if deferred {
            obs.class("deferred-send-after-pending");
        }
        if self.leaves.iter().any(|l| l.core().polls_after_fin_done > 0) {
            obs.class("leaf-repolled-after-finalize-done(recorded,allowed)");
        }
        let mut first_err = None;
        for f in self.fails {
            if known.contains(&f.sig) {
                if !obs.known_hits.iter().any(|k| k.sig == f.sig) {
                    obs.excluded(format!("known:{}", f.sig));
                    obs.known_hits.push(f);
                }
            } else if first_err.is_none() {
                first_err = Some(f);
            }
        }
        match first_err {
            Some(f) => Err(f),
            None => Ok(()),
        }
    }
}

pub struct PushSubject {
    pub name: &'static str,
    pub leaves: u8,
    pub uses_tape: bool,
    pub two_ticks: bool,
    pub uses_flag: bool,
    pub uses_src: bool,
    pub body: fn(&mut Harness<'_>, &PushCase),
}

fn fm(x: i64) -> Option<i64> {
    if x != 1 {
        Some(x + 10)
    } else {
        None
    }
}
fn comb(acc: &mut i64, x: i64) {
    *acc = *acc * 3 + x;
}
fn keyed(items: &[i64], off: usize) -> Vec<(i64, i64)> {
    items.iter().enumerate().map(|(i, x)| (x % 2, x * 10 + (i + off) as i64)).collect()
}
fn keyed_fold(map: &mut BTreeMap<i64, i64>, items: &[(i64, i64)], init: Option<i64>) {
    for (k, v) in items {
        match map.get_mut(k) {
            Some(acc) => comb(acc, *v),
            None => {
                let acc = match init {
                    Some(i) => {
                        let mut a = i;
                        comb(&mut a, *v);
                        a
                    }
                    None => *v,
                };
                map.insert(*k, acc);
            }
        }
    }
}

macro_rules! ps {
    ($v:ident, $name:literal, leaves=$l:literal, [$($f:ident),*], |$h:ident, $c:ident| $body:block) => {
        #[allow(unused_mut)]
        {
            let mut s = PushSubject { name: $name, leaves: $l, uses_tape: false, two_ticks: false, uses_flag: false, uses_src: false,
                body: |$h: &mut Harness<'_>, $c: &PushCase| $body };
            $( s.$f = true; )*
            $v.push(s);
        }
    };
}

pub fn subjects() -> Vec<PushSubject> {
    let mut v: Vec<PushSubject> = vec![];

    ps!(v, "map", leaves = 1, [], |h, c| {
        let (l0, r0) = h.leaf::<i64>(0);
        h.run(push::map(|x: i64| x * 2 + 1, l0), c.items.clone());
        h.expect(&r0, c.items.iter().map(|x| x * 2 + 1).collect(), Order::Seq);
    });
    ps!(v, "filter", leaves = 1, [], |h, c| {
        let (l0, r0) = h.leaf_task::<i64>(0);
        h.run(push::filter(|x: &i64| x % 2 == 0, l0), c.items.clone());
        h.expect(&r0, c.items.iter().copied().filter(|x| x % 2 == 0).collect(), Order::Seq);
    });
    ps!(v, "filter_map", leaves = 1, [], |h, c| {
        let (l0, r0) = h.leaf::<i64>(0);
        h.run(push::filter_map(fm, l0), c.items.clone());
        h.expect(&r0, c.items.iter().copied().filter_map(fm).collect(), Order::Seq);
    });
    ps!(v, "flat_map", leaves = 1, [], |h, c| {
        let (l0, r0) = h.leaf::<i64>(0);
        h.run(push::flat_map(inner_items, l0), c.items.clone());
        h.expect(&r0, c.items.iter().copied().flat_map(inner_items).collect(), Order::Seq);
    });
    ps!(v, "flatten", leaves = 1, [], |h, c| {
        let (l0, r0) = h.leaf_task::<i64>(0);
        h.run(push::flatten::<Vec<i64>, (), _>(l0), c.items.iter().copied().map(inner_items).collect::<Vec<_>>());
        h.expect(&r0, c.items.iter().copied().flat_map(inner_items).collect(), Order::Seq);
    });
    ps!(v, "inspect", leaves = 1, [], |h, c| {
        let (l0, r0) = h.leaf::<i64>(0);
        let seen = Rc::new(RefCell::new(vec![]));
        let s2 = seen.clone();
        h.run(push::inspect(move |x: &i64| s2.borrow_mut().push(*x), l0), c.items.clone());
        h.expect(&r0, c.items.clone(), Order::Seq);
        h.expect_eq("inspect-closure", seen.borrow().clone(), c.items.clone());
    });
    ps!(v, "fanout", leaves = 2, [], |h, c| {
        let (l0, r0) = h.leaf::<i64>(0);
        let (l1, r1) = h.leaf_task::<i64>(1);
        h.run(push::fanout(l0, l1), c.items.clone());
        h.expect(&r0, c.items.clone(), Order::Seq);
        h.expect(&r1, c.items.clone(), Order::Seq);
    });
    ps!(v, "unzip", leaves = 2, [], |h, c| {
        let (l0, r0) = h.leaf_task::<i64>(0);
        let (l1, r1) = h.leaf::<i64>(1);
        h.run(push::unzip(l0, l1), c.items.iter().map(|x| (*x, x + 10)).collect::<Vec<_>>());
        h.expect(&r0, c.items.clone(), Order::Seq);
        h.expect(&r1, c.items.iter().map(|x| x + 10).collect(), Order::Seq);
    });
    ps!(v, "demux_var", leaves = 3, [], |h, c| {
        let (l0, r0) = h.leaf::<i64>(0);
        let (l1, r1) = h.leaf_task::<i64>(1);
        let (l2, r2) = h.leaf::<i64>(2);
        let items: Vec<(usize, i64)> = c.items.iter().enumerate().map(|(i, x)| (x.rem_euclid(3) as usize, x * 10 + i as i64)).collect();
        h.run(push::demux_var((l0, (l1, (l2, ())))), items.clone());
        for (k, r) in [(0usize, &r0), (1, &r1), (2, &r2)] {
            h.expect(r, items.iter().filter(|(i, _)| *i == k).map(|(_, x)| *x).collect(), Order::Seq);
        }
    });
    ps!(v, "fold(owned)", leaves = 1, [], |h, c| {
        let (l0, r0) = h.leaf::<i64>(0);
        h.run(push::fold(1i64, comb, l0), c.items.clone());
        let mut acc = 1i64;
        c.items.iter().for_each(|x| comb(&mut acc, *x));
        h.expect(&r0, vec![acc], Order::Seq);
    });
    ps!(v, "fold(borrowed,2 ticks)", leaves = 1, [two_ticks], |h, c| {
        let mut val = 1i64;
        let mut acc = 1i64;
        for (t, items) in [&c.items, &c.items2].into_iter().enumerate() {
            let (l0, r0) = h.leaf_tick::<i64>(0, t);
            h.run(push::fold(&mut val, comb, push::map(|v: &mut i64| *v, l0)), items.clone());
            items.iter().for_each(|x| comb(&mut acc, *x));
            h.expect(&r0, vec![acc], Order::Seq);
            h.expect_eq("fold-state", val, acc);
        }
    });
    ps!(v, "reduce(owned)", leaves = 1, [uses_flag], |h, c| {
        let (l0, r0) = h.leaf_task::<i64>(0);
        let init = if c.flag { Some(100i64) } else { None };
        h.run(push::reduce(init, comb, l0), c.items.clone());
        let mut acc = init;
        for x in &c.items {
            match &mut acc {
                Some(a) => comb(a, *x),
                None => acc = Some(*x),
            }
        }
        h.expect(&r0, acc.into_iter().collect(), Order::Seq);
    });
    ps!(v, "reduce_ref(borrowed,2 ticks)", leaves = 1, [two_ticks], |h, c| {
        let mut val: Option<i64> = None;
        let mut acc: Option<i64> = None;
        for (t, items) in [&c.items, &c.items2].into_iter().enumerate() {
            let (l0, r0) = h.leaf_tick::<i64>(0, t);
            h.run(push::reduce_ref(&mut val, comb, push::map(|v: &mut i64| *v, l0)), items.clone());
            for x in items {
                match &mut acc {
                    Some(a) => comb(a, *x),
                    None => acc = Some(*x),
                }
            }
            h.expect(&r0, acc.into_iter().collect(), Order::Seq);
            h.expect_eq("reduce-state", val, acc);
        }
    });
    ps!(v, "sort", leaves = 1, [], |h, c| {
        let (l0, r0) = h.leaf::<i64>(0);
        let items: Vec<i64> = c.items.iter().enumerate().map(|(i, x)| (2 - x) * 10 + (i as i64 % 2)).collect();
        h.run(push::sort(l0), items.clone());
        let mut e = items;
        e.sort();
        h.expect(&r0, e, Order::Seq);
    });
    ps!(v, "accumulate(SortState)", leaves = 1, [], |h, c| {
        let (l0, r0) = h.leaf_task::<i64>(0);
        let items: Vec<i64> = c.items.iter().enumerate().map(|(i, x)| (2 - x) * 10 + (i as i64 % 2)).collect();
        h.run(push::accumulate(push::SortState::new(), l0), items.clone());
        let mut e = items;
        e.sort();
        h.expect(&r0, e, Order::Seq);
    });
    ps!(v, "fold_keyed(2 ticks)", leaves = 1, [two_ticks], |h, c| {
        let mut map: HashMap<i64, i64> = HashMap::new();
        let mut model: BTreeMap<i64, i64> = BTreeMap::new();
        let mut off = 0;
        for (t, items) in [&c.items, &c.items2].into_iter().enumerate() {
            let (l0, r0) = h.leaf_tick::<(i64, i64)>(0, t);
            let kv = keyed(items, off);
            off += items.len();
            h.run(push::FoldKeyed::new(&mut map, || 7i64, comb, l0), kv.clone());
            keyed_fold(&mut model, &kv, Some(7));
            h.expect(&r0, model.iter().map(|(k, v)| (*k, *v)).collect(), Order::Bag);
        }
        h.expect_eq("fold_keyed-map", map.into_iter().collect::<BTreeMap<_, _>>(), model);
    });
    ps!(v, "reduce_keyed(2 ticks)", leaves = 1, [two_ticks], |h, c| {
        let mut map: HashMap<i64, i64> = HashMap::new();
        let mut model: BTreeMap<i64, i64> = BTreeMap::new();
        let mut off = 0;
        for (t, items) in [&c.items, &c.items2].into_iter().enumerate() {
            let (l0, r0) = h.leaf_tick::<(i64, i64)>(0, t);
            let kv = keyed(items, off);
            off += items.len();
            h.run(push::ReduceKeyed::new(&mut map, comb, l0), kv.clone());
            keyed_fold(&mut model, &kv, None);
            h.expect(&r0, model.iter().map(|(k, v)| (*k, *v)).collect(), Order::Bag);
        }
        h.expect_eq("reduce_keyed-map", map.into_iter().collect::<BTreeMap<_, _>>(), model);
    });
    ps!(v, "persist(2 ticks)", leaves = 1, [two_ticks, uses_flag], |h, c| {
        // tick 0 starts from a buffer persisted by an earlier tick; replay is `flag` in tick 0
        // and `!flag` in tick 1, so both replay modes meet a non-empty buffer
        let mut buf: Vec<i64> = vec![70, 71];
        let mut model = buf.clone();
        for (t, items) in [&c.items, &c.items2].into_iter().enumerate() {
            let replay = c.flag ^ (t == 1);
            let (l0, r0) = h.leaf_tick::<i64>(0, t);
            h.run(push::persist_state(&mut buf, replay, l0), items.clone());
            let mut e = if replay { model.clone() } else { vec![] };
            e.extend(items.iter().copied());
            model.extend(items.iter().copied());
            h.expect(&r0, e, Order::Seq);
            h.expect_eq("persist-buffer", buf.clone(), model.clone());
        }
    });
    ps!(v, "resolve_futures", leaves = 1, [uses_tape, uses_flag], |h, c| {
        // flag: a subgraph waker is supplied (unresolved futures are left for later ticks)
        let mut queue: OrderedQ<InnerFut<i64>> = OrderedQ::default();
        let waker = if c.flag { Some(Waker::noop().clone()) } else { None };
        let expected: Vec<i64> = c.items.iter().map(|x| x * 2 + 1).collect();
        let mut got: Vec<i64> = vec![];
        let env = h.env.base.clone();
        let mut tick = 0;
        loop {
            let (l0, r0) = h.leaf_tick::<i64>(0, tick);
            let futs: Vec<InnerFut<i64>> = if tick == 0 { expected.iter().map(|x| InnerFut::new(&env, *x)).collect() } else { vec![] };
            h.run(push::resolve_futures_state(&mut queue, waker.clone(), l0), futs);
            got.extend(r0.items.borrow().iter().copied());
            tick += 1;
            if queue.q.is_empty() || tick > c.tape.len() + 2 || h.aborted {
                break;
            }
        }
        if !c.flag {
            h.expect_eq("resolve_futures-ticks", tick, 1);
        }
        h.expect_eq("resolve_futures-outputs", got, expected);
    });
    ps!(v, "flat_map_stream", leaves = 1, [uses_tape], |h, c| {
        let (l0, r0) = h.leaf::<i64>(0);
        let env = h.env.base.clone();
        h.run(push::flat_map_stream(move |x: i64| InnerStream::new(&env, inner_items(x)), l0), c.items.clone());
        h.expect(&r0, c.items.iter().copied().flat_map(inner_items).collect(), Order::Seq);
    });
    ps!(v, "flatten_stream", leaves = 1, [uses_tape], |h, c| {
        let (l0, r0) = h.leaf_task::<i64>(0);
        let env = h.env.base.clone();
        let streams: Vec<InnerStream<i64>> = c.items.iter().map(|x| InnerStream::new(&env, inner_items(*x))).collect();
        h.run(push::flatten_stream::<InnerStream<i64>, (), _>(l0), streams);
        h.expect(&r0, c.items.iter().copied().flat_map(inner_items).collect(), Order::Seq);
    });
    ps!(v, "filter_map_async", leaves = 1, [uses_tape], |h, c| {
        let (l0, r0) = h.leaf::<i64>(0);
        let env = h.env.base.clone();
        h.run(push::filter_map_async(move |x: i64| InnerFut::new(&env, fm(x)), l0), c.items.clone());
        h.expect(&r0, c.items.iter().copied().filter_map(fm).collect(), Order::Seq);
    });
    ps!(v, "sink", leaves = 1, [], |h, c| {
        let (l0, r0) = h.leaf::<i64>(0);
        h.run(push::sink::<_, i64>(l0), c.items.clone());
        h.expect(&r0, c.items.clone(), Order::Seq);
    });
    ps!(v, "sink_compat", leaves = 1, [], |h, c| {
        let (l0, r0) = h.leaf_task::<i64>(0);
        h.run_sink(push::sink_compat::<_, i64>(push::map(|x: i64| x + 1, l0)), c.items.clone());
        h.expect(&r0, c.items.iter().map(|x| x + 1).collect(), Order::Seq);
    });
    ps!(v, "sink_compat(fanout)", leaves = 2, [], |h, c| {
        let (l0, r0) = h.leaf::<i64>(0);
        let (l1, r1) = h.leaf_task::<i64>(1);
        h.run_sink(push::sink_compat::<_, i64>(push::fanout(l0, l1)), c.items.clone());
        h.expect(&r0, c.items.clone(), Order::Seq);
        h.expect(&r1, c.items.clone(), Order::Seq);
    });
    ps!(v, "send_push", leaves = 1, [uses_src], |h, c| {
        let (l0, r0) = h.leaf_task::<i64>(0);
        let src = Src::<i64, SyncC, false>::new(&h.env.base, &src_script(c), Hint::EXACT);
        h.run_future(src.send_push(push::map(|x: i64| x * 2, l0)));
        h.expect(&r0, c.items.iter().map(|x| x * 2).collect(), Order::Seq);
    });
    ps!(v, "send_push(flat_map->fanout)", leaves = 2, [uses_src], |h, c| {
        let (l0, r0) = h.leaf::<i64>(0);
        let (l1, r1) = h.leaf_task::<i64>(1);
        let src = Src::<i64, TaskC, true>::new(&h.env.base, &src_script(c), Hint::EXACT);
        h.run_future(src.send_push(push::flat_map(inner_items, push::fanout(l0, l1))));
        let e: Vec<i64> = c.items.iter().copied().flat_map(inner_items).collect();
        h.expect(&r0, e.clone(), Order::Seq);
        h.expect(&r1, e, Order::Seq);
    });
    ps!(v, "state_push", leaves = 2, [], |h, c| {
        let (l0, r0) = h.leaf::<i64>(0);
        let (l1, r1) = h.leaf_task::<i64>(1);
        let mut state: Max<i64> = Max::new(1);
        h.run(
            push::state_push(l0, push::map(|m: Max<i64>| m.into_reveal(), l1), |x: i64| Max::new(x), &mut state),
            c.items.clone(),
        );
        let mut m = 1i64;
        let mut changed = vec![];
        for x in &c.items {
            if *x > m {
                m = *x;
                changed.push(*x);
            }
        }
        h.expect(&r0, changed, Order::Seq);
        h.expect(&r1, vec![m], Order::Seq);
        h.expect_eq("state_push-state", state.into_reveal(), m);
    });
    ps!(v, "map->for_each", leaves = 0, [], |h, c| {
        let mut got = vec![];
        h.run(push::map(|x: i64| x + 5, push::for_each(|x: i64| got.push(x))), c.items.clone());
        h.expect_eq("for_each-closure", got, c.items.iter().map(|x| x + 5).collect::<Vec<_>>());
    });
    ps!(v, "filter->vec_push", leaves = 0, [], |h, c| {
        let mut got: Vec<i64> = vec![];
        h.run(push::filter(|x: &i64| *x != 0, push::vec_push(&mut got)), c.items.clone());
        h.expect_eq("vec_push-buffer", got, c.items.iter().copied().filter(|x| *x != 0).collect::<Vec<_>>());
    });

    // ---- chains ending in fanout / unzip trees ----------------------------------------------
    ps!(v, "map->fanout(l0,filter->l1)", leaves = 2, [], |h, c| {
        let (l0, r0) = h.leaf::<i64>(0);
        let (l1, r1) = h.leaf_task::<i64>(1);
        h.run(push::map(|x: i64| x + 1, push::fanout(l0, push::filter(|x: &i64| x % 2 == 0, l1))), c.items.clone());
        h.expect(&r0, c.items.iter().map(|x| x + 1).collect(), Order::Seq);
        h.expect(&r1, c.items.iter().map(|x| x + 1).filter(|x| x % 2 == 0).collect(), Order::Seq);
    });
    ps!(v, "flat_map->fanout", leaves = 2, [], |h, c| {
        let (l0, r0) = h.leaf_task::<i64>(0);
        let (l1, r1) = h.leaf::<i64>(1);
        h.run(push::flat_map(inner_items, push::fanout(l0, l1)), c.items.clone());
        let e: Vec<i64> = c.items.iter().copied().flat_map(inner_items).collect();
        h.expect(&r0, e.clone(), Order::Seq);
        h.expect(&r1, e, Order::Seq);
    });
    ps!(v, "flat_map->unzip", leaves = 2, [], |h, c| {
        let (l0, r0) = h.leaf::<i64>(0);
        let (l1, r1) = h.leaf::<i64>(1);
        let f = |x: i64| inner_items(x).into_iter().map(move |y| (x, y)).collect::<Vec<_>>();
        h.run(push::flat_map(f, push::unzip(l0, l1)), c.items.clone());
        let e: Vec<(i64, i64)> = c.items.iter().copied().flat_map(f).collect();
        h.expect(&r0, e.iter().map(|p| p.0).collect(), Order::Seq);
        h.expect(&r1, e.iter().map(|p| p.1).collect(), Order::Seq);
    });
    ps!(v, "fanout(fanout(l0,l1),l2)", leaves = 3, [], |h, c| {
        let (l0, r0) = h.leaf::<i64>(0);
        let (l1, r1) = h.leaf_task::<i64>(1);
        let (l2, r2) = h.leaf::<i64>(2);
        h.run(push::fanout(push::fanout(l0, l1), l2), c.items.clone());
        for r in [&r0, &r1, &r2] {
            h.expect(r, c.items.clone(), Order::Seq);
        }
    });
    ps!(v, "unzip(fanout(l0,l1),flat_map->l2)", leaves = 3, [], |h, c| {
        let (l0, r0) = h.leaf::<i64>(0);
        let (l1, r1) = h.leaf::<i64>(1);
        let (l2, r2) = h.leaf_task::<i64>(2);
        let items: Vec<(i64, i64)> = c.items.iter().enumerate().map(|(i, x)| (*x, (x + i as i64) % 3)).collect();
        h.run(push::unzip(push::fanout(l0, l1), push::flat_map(inner_items, l2)), items.clone());
        h.expect(&r0, items.iter().map(|p| p.0).collect(), Order::Seq);
        h.expect(&r1, items.iter().map(|p| p.0).collect(), Order::Seq);
        h.expect(&r2, items.iter().flat_map(|p| inner_items(p.1)).collect(), Order::Seq);
    });
    ps!(v, "sort->fanout", leaves = 2, [], |h, c| {
        let (l0, r0) = h.leaf::<i64>(0);
        let (l1, r1) = h.leaf_task::<i64>(1);
        let items: Vec<i64> = c.items.iter().enumerate().map(|(i, x)| (2 - x) * 10 + (i as i64 % 2)).collect();
        h.run(push::sort(push::fanout(l0, l1)), items.clone());
        let mut e = items;
        e.sort();
        h.expect(&r0, e.clone(), Order::Seq);
        h.expect(&r1, e, Order::Seq);
    });
    ps!(v, "persist(replay)->fanout", leaves = 2, [], |h, c| {
        let (l0, r0) = h.leaf_task::<i64>(0);
        let (l1, r1) = h.leaf::<i64>(1);
        let mut buf: Vec<i64> = vec![70, 71];
        h.run(push::persist_state(&mut buf, true, push::fanout(l0, l1)), c.items.clone());
        let mut e = vec![70, 71];
        e.extend(c.items.iter().copied());
        h.expect(&r0, e.clone(), Order::Seq);
        h.expect(&r1, e.clone(), Order::Seq);
        h.expect_eq("persist-buffer", buf, e);
    });
    ps!(v, "fold->fanout", leaves = 2, [], |h, c| {
        let (l0, r0) = h.leaf::<i64>(0);
        let (l1, r1) = h.leaf::<i64>(1);
        h.run(push::fold(1i64, comb, push::fanout(l0, l1)), c.items.clone());
        let mut acc = 1i64;
        c.items.iter().for_each(|x| comb(&mut acc, *x));
        h.expect(&r0, vec![acc], Order::Seq);
        h.expect(&r1, vec![acc], Order::Seq);
    });
    ps!(v, "flat_map->flat_map", leaves = 1, [], |h, c| {
        let (l0, r0) = h.leaf::<i64>(0);
        let g = |y: i64| vec![y; (y % 2) as usize + 1];
        h.run(push::flat_map(inner_items, push::flat_map(g, l0)), c.items.clone());
        h.expect(&r0, c.items.iter().copied().flat_map(inner_items).flat_map(g).collect(), Order::Seq);
    });
    ps!(v, "filter_map_async->fanout", leaves = 2, [uses_tape], |h, c| {
        let (l0, r0) = h.leaf::<i64>(0);
        let (l1, r1) = h.leaf_task::<i64>(1);
        let env = h.env.base.clone();
        h.run(push::filter_map_async(move |x: i64| InnerFut::new(&env, fm(x)), push::fanout(l0, l1)), c.items.clone());
        let e: Vec<i64> = c.items.iter().copied().filter_map(fm).collect();
        h.expect(&r0, e.clone(), Order::Seq);
        h.expect(&r1, e, Order::Seq);
    });
    ps!(v, "flat_map_stream->unzip", leaves = 2, [uses_tape], |h, c| {
        let (l0, r0) = h.leaf_task::<i64>(0);
        let (l1, r1) = h.leaf::<i64>(1);
        let env = h.env.base.clone();
        let f = |x: i64| inner_items(x).into_iter().map(move |y| (x, y)).collect::<Vec<_>>();
        h.run(push::flat_map_stream(move |x: i64| InnerStream::new(&env, f(x)), push::unzip(l0, l1)), c.items.clone());
        let e: Vec<(i64, i64)> = c.items.iter().copied().flat_map(f).collect();
        h.expect(&r0, e.iter().map(|p| p.0).collect(), Order::Seq);
        h.expect(&r1, e.iter().map(|p| p.1).collect(), Order::Seq);
    });
    ps!(v, "demux_var(fanout(l0,l1),l2)", leaves = 3, [], |h, c| {
        let (l0, r0) = h.leaf::<i64>(0);
        let (l1, r1) = h.leaf_task::<i64>(1);
        let (l2, r2) = h.leaf::<i64>(2);
        let items: Vec<(usize, i64)> = c.items.iter().enumerate().map(|(i, x)| (x.rem_euclid(2) as usize, x * 10 + i as i64)).collect();
        h.run(push::demux_var((push::fanout(l0, l1), (l2, ()))), items.clone());
        let e0: Vec<i64> = items.iter().filter(|p| p.0 == 0).map(|p| p.1).collect();
        h.expect(&r0, e0.clone(), Order::Seq);
        h.expect(&r1, e0, Order::Seq);
        h.expect(&r2, items.iter().filter(|p| p.0 == 1).map(|p| p.1).collect(), Order::Seq);
    });
    ps!(v, "fanout(sort->l0,flat_map->l1)", leaves = 2, [], |h, c| {
        let (l0, r0) = h.leaf::<i64>(0);
        let (l1, r1) = h.leaf_task::<i64>(1);
        h.run(push::fanout(push::sort(l0), push::flat_map(inner_items, l1)), c.items.clone());
        let mut e = c.items.clone();
        e.sort();
        h.expect(&r0, e, Order::Seq);
        h.expect(&r1, c.items.iter().copied().flat_map(inner_items).collect(), Order::Seq);
    });
    ps!(v, "fanout(persist->l0,fold->l1)", leaves = 2, [], |h, c| {
        let (l0, r0) = h.leaf_task::<i64>(0);
        let (l1, r1) = h.leaf::<i64>(1);
        let mut buf: Vec<i64> = vec![70];
        h.run(push::fanout(push::persist_state(&mut buf, true, l0), push::fold(1i64, comb, l1)), c.items.clone());
        let mut e = vec![70];
        e.extend(c.items.iter().copied());
        h.expect(&r0, e, Order::Seq);
        let mut acc = 1i64;
        c.items.iter().for_each(|x| comb(&mut acc, *x));
        h.expect(&r1, vec![acc], Order::Seq);
    });
    ps!(v, "unzip(reduce->l0,filter->l1)", leaves = 2, [], |h, c| {
        let (l0, r0) = h.leaf::<i64>(0);
        let (l1, r1) = h.leaf_task::<i64>(1);
        h.run(
            push::unzip(push::reduce(None, comb, l0), push::filter(|x: &i64| *x != 11, l1)),
            c.items.iter().map(|x| (*x, x + 10)).collect::<Vec<_>>(),
        );
        let mut acc: Option<i64> = None;
        for x in &c.items {
            match &mut acc {
                Some(a) => comb(a, *x),
                None => acc = Some(*x),
            }
        }
        h.expect(&r0, acc.into_iter().collect(), Order::Seq);
        h.expect(&r1, c.items.iter().map(|x| x + 10).filter(|x| *x != 11).collect(), Order::Seq);
    });
    v
}

fn src_script(c: &PushCase) -> Script<i64> {
    let mut s = vec![];
    for slot in 0..=c.items.len() {
        for _ in c.src_pend.iter().filter(|p| **p as usize == slot) {
            s.push(None);
        }
        if slot < c.items.len() {
            s.push(Some(c.items[slot]));
        }
    }
    s
}

fn run_subject(s: &PushSubject, case: &PushCase, known: &Known, obs: &mut Obs) -> Result<(), Fail> {
    let name = s.name;
    let body = s.body;
    let r = std::panic::catch_unwind(std::panic::AssertUnwindSafe(|| {
        let mut h = Harness::new(name, case);
        body(&mut h, case);
        h
    }));
    match r {
        Ok(h) => h.finish(known, obs),
        Err(p) => Err(Fail::new(
            format!("push/{name}:panic:{}", vcommon::panic_sig(&p)),
            format!("panic inside the subject: {}", vcommon::panic_msg(&p)),
        )),
    }
}

// ---------------------------------------------------------------------------------------------
// Domains
// ---------------------------------------------------------------------------------------------

/// Ready logs: all placements of <= k Pending answers among the first `r` poll_ready calls.
fn leaf_logs(r: usize, k: usize, fin_max: u8) -> Vec<LeafLog> {
    let mut out = vec![];
    for ready in tapes(r, k) {
        for fin in 0..=fin_max {
            out.push(LeafLog { ready: ready.clone(), fin });
        }
    }
    out
}

fn enumerate_cases(s: &PushSubject, tier: Tier) -> impl Iterator<Item = PushCase> {
    let th = tier == Tier::Thorough;
    let vals = [0i64, 1, 2];
    let leaves = s.leaves.max(1) as usize;
    // per-leaf log space and item-list bounds by number of leaves
    let (len, logs): (usize, Vec<LeafLog>) = match (s.leaves, th) {
        (0, _) => (4, vec![LeafLog::default()]),
        (1, false) => (if s.uses_tape || s.two_ticks { 3 } else { 4 }, leaf_logs(6, 2, 2)),
        (1, true) => (if s.uses_tape || s.two_ticks { 4 } else { 6 }, leaf_logs(7, 3, 2)),
        (2, false) => (3, leaf_logs(if s.uses_tape { 4 } else { 5 }, 2, if s.uses_tape { 1 } else { 2 })),
        (2, true) => (if s.uses_tape { 3 } else { 4 }, leaf_logs(if s.uses_tape { 5 } else { 6 }, 2, 2)),
        (_, false) => (3, leaf_logs(4, 1, 1)),
        (_, true) => (3, leaf_logs(4, 2, 1)),
    };
    let lists1 = lists(len, &vals);
    let lists2: Vec<Vec<i64>> = if s.two_ticks { lists(2, &vals) } else { vec![vec![]] };
    let lists1 = if s.two_ticks { lists(if th { 3 } else { 2 }, &vals) } else { lists1 };
    let tps = if s.uses_tape {
        match (s.leaves, th) {
            (1, false) => tapes(5, 2),
            (1, true) => tapes(6, 3),
            (_, false) => tapes(4, 1),
            (_, true) => tapes(4, 2),
        }
    } else {
        vec![vec![]]
    };
    let srcs: Vec<Vec<u8>> = if s.uses_src {
        // <= 2 pendings of the pull source among the first 4 slots
        let mut v = vec![vec![]];
        for a in 0..4u8 {
            v.push(vec![a]);
            for b in a..4u8 {
                v.push(vec![a, b]);
            }
        }
        v
    } else {
        vec![vec![]]
    };
    let flags: Vec<bool> = if s.uses_flag { vec![false, true] } else { vec![false] };
    let hints: Vec<bool> = if s.leaves <= 1 { vec![false, true] } else { vec![false] };
    let logs = Rc::new(logs);
    let nl = logs.len();
    let combos = nl.pow(leaves as u32);
    let dims = Rc::new((lists1, lists2, tps, srcs, flags, hints));
    let total = dims.0.len() * dims.1.len() * dims.2.len() * dims.3.len() * dims.4.len() * dims.5.len() * combos;
    (0..total).map(move |mut i| {
        let d = &*dims;
        let mut lv = vec![];
        for _ in 0..leaves {
            lv.push(logs[i % nl].clone());
            i /= nl;
        }
        let hint = d.5[i % d.5.len()];
        i /= d.5.len();
        let flag = d.4[i % d.4.len()];
        i /= d.4.len();
        let src_pend = d.3[i % d.3.len()].clone();
        i /= d.3.len();
        let tape = d.2[i % d.2.len()].clone();
        i /= d.2.len();
        let items2 = d.1[i % d.1.len()].clone();
        i /= d.1.len();
        let items = d.0[i].clone();
        PushCase { items, items2, leaves: lv, tape, src_pend, hint, flag }
    })
}

fn case_strategy(leaves: u8) -> impl Strategy<Value = PushCase> {
    let log = (prop::collection::vec(prop::sample::select(vec![false, false, true]), 0..=20), 0u8..=3)
        .prop_map(|(ready, fin)| LeafLog { ready, fin });
    (
        prop::collection::vec(0i64..=5, 0..=12),
        prop::collection::vec(0i64..=5, 0..=6),
        prop::collection::vec(log, leaves.max(1) as usize),
        prop::collection::vec(prop::sample::select(vec![false, false, true]), 0..=24),
        prop::collection::vec(0u8..=12, 0..=4),
        any::<bool>(),
        any::<bool>(),
    )
        .prop_map(|(items, items2, leaves, tape, src_pend, hint, flag)| PushCase { items, items2, leaves, tape, src_pend, hint, flag })
}

pub fn run(ctx: &mut Ctx) {
    let known: Known = ctx.known.known.keys().filter(|(p, _)| p == "C12").map(|(_, s)| s.clone()).collect();
    ctx.rule = "Per subject (push combinator or chain ending in a fanout/unzip/demux tree; 45 subjects), one case = item list over \
                {0,1,2} (second list for multi-tick subjects) x for every leaf a poll_ready answer log (every placement of <=k Pending \
                among the first r calls) and 0..2 leading Pending answers of poll_finalize x pending tape of scripted inner \
                streams/futures x variant flag (persist replay, resolve_futures waker, reduce init) x size_hint call, bounded-exhaustive; \
                plus seeded random cases (<=12 items, values 0..5, random logs). Oracle per leaf: reference item sequence (multiset \
                for keyed operators) and protocol clauses (a) send only after a poll_ready whose latest answer was Done, (b) no send \
                after poll_finalize was called, (c) every leaf answered Done to poll_finalize after its last item when the subject's \
                poll_finalize returns Done. Non-trivial: two leaves answered Pending during different driver calls, or a leaf \
                answered Pending during the subject's poll_finalize, or a leaf received an item outside the driver's start_send \
                (buffered/replayed/drained) after it had answered Pending; distinct = structural hash of (subject, case)."
        .into();
    ctx.assume("a leaf that answered Done to poll_finalize answers Done to any further poll_finalize; re-polling it is recorded, not flagged");
    ctx.assume("termination: a subject still answering Pending after 2x all scripted Pending answers (+ slack) were consumed is reported as no-termination (deterministic, not a timeout)");
    ctx.floor = 1000;
    let tier = ctx.tier();
    let only = ctx.args.extra.get("only").cloned();
    for s in subjects() {
        if let Some(o) = &only {
            if !s.name.contains(o.as_str()) {
                continue;
            }
        }
        let sub = format!("x/{}", s.name);
        ctx.check_all(&sub, enumerate_cases(&s, tier), |c: &PushCase, o| run_subject(&s, c, &known, o));
        let sub = format!("r/{}", s.name);
        ctx.check(&sub, tier.pick(400, 8000), case_strategy(s.leaves), |c: &PushCase, o| run_subject(&s, c, &known, o));
    }
}
