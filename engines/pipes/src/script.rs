//! Scripted upstreams (pull sources, inner streams, inner futures), the shared observation
//! environment, and the bounded-exhaustive enumerators used by C11, C12 and C13.
//!
//! A scripted source is a list of steps `Some(item)` (= `Ready(item)`) / `None` (= `Pending`),
//! followed by `Ended`. A *fused* source keeps answering `Ended`; a *non-fused* source records a
//! poll after `Ended` in `Env::after_end` (the repository's own `TestPull` panics there; a flag
//! gives the same information without unwinding through the code under test).

use std::cell::{Cell, RefCell};
use std::collections::{BTreeSet, VecDeque};
use std::future::Future;
use std::marker::PhantomData;
use std::pin::Pin;
use std::rc::Rc;
use std::task::{Context as TaskCx, Poll, Waker};

use dfir_pipes::pull::{FusedPull, Pull, PullStep};
use dfir_pipes::Yes;

pub type Script<T> = Vec<Option<T>>;
pub type Known = BTreeSet<String>;

/// Selects the `Pull::Ctx` / `Push::Ctx` of a harness endpoint: `()` or `core::task::Context`.
/// Mixing the two in one pipeline exercises `Context::Merged` / `unmerge_*`.
pub trait CtxSel: 'static {
    type Ctx<'ctx>: dfir_pipes::Context<'ctx>;
}
pub struct SyncC;
pub struct TaskC;
impl CtxSel for SyncC {
    type Ctx<'ctx> = ();
}
impl CtxSel for TaskC {
    type Ctx<'ctx> = TaskCx<'ctx>;
}

/// Shared observation state of one case.
#[derive(Default)]
pub struct Env {
    /// `Pending` answers handed out so far by scripted upstreams (sources, inner streams/futures)
    pub pend: Cell<u64>,
    /// items handed out so far by scripted upstreams
    pub ready: Cell<u64>,
    /// polls of a non-fused scripted upstream after it reported its end
    pub after_end: Cell<u32>,
    /// scripted inner futures created and not yet resolved
    pub inflight: Cell<i64>,
    /// total number of `Pending` steps in all scripts of the case (termination budget)
    pub total_pend: Cell<u64>,
    tape: RefCell<VecDeque<bool>>,
}

impl Env {
    pub fn new(tape: &[bool]) -> Rc<Env> {
        let e = Env::default();
        e.total_pend
            .set(tape.iter().filter(|b| **b).count() as u64);
        *e.tape.borrow_mut() = tape.iter().copied().collect();
        Rc::new(e)
    }
    /// Next answer of the inner-upstream pending tape: `true` = answer `Pending` now.
    pub fn tape_pending(&self) -> bool {
        let p = self.tape.borrow_mut().pop_front().unwrap_or(false);
        if p {
            self.pend.set(self.pend.get() + 1);
        }
        p
    }
    fn note_pend(&self) {
        self.pend.set(self.pend.get() + 1);
    }
    fn note_ready(&self) {
        self.ready.set(self.ready.get() + 1);
    }
}

/// Size-hint honesty parameters of a scripted source: the reported hint is
/// `(remaining - lo_slack, Some(remaining + hi_slack) | None)`, which always brackets `remaining`.
#[derive(Clone, Copy, Debug)]
pub struct Hint {
    pub lo_slack: usize,
    pub hi_slack: Option<usize>,
}
impl Hint {
    pub const EXACT: Hint = Hint {
        lo_slack: 0,
        hi_slack: Some(0),
    };
}

/// Scripted pull source.
pub struct Src<T, C, const FUSED: bool> {
    env: Rc<Env>,
    steps: VecDeque<Option<T>>,
    remaining: usize,
    ended: bool,
    hint: Hint,
    _c: PhantomData<fn() -> C>,
}

impl<T: Clone, C, const FUSED: bool> Src<T, C, FUSED> {
    pub fn new(env: &Rc<Env>, script: &[Option<T>], hint: Hint) -> Self {
        let pend = script.iter().filter(|s| s.is_none()).count();
        env.total_pend.set(env.total_pend.get() + pend as u64);
        Src {
            env: env.clone(),
            steps: script.iter().cloned().collect(),
            remaining: script.len() - pend,
            ended: false,
            hint,
            _c: PhantomData,
        }
    }
}

impl<T, C, const FUSED: bool> Unpin for Src<T, C, FUSED> {}

impl<T, C: CtxSel, const FUSED: bool> Pull for Src<T, C, FUSED> {
    type Ctx<'ctx> = C::Ctx<'ctx>;
    type Item = T;
    type Meta = ();
    type CanPend = Yes;
    type CanEnd = Yes;

    fn pull(self: Pin<&mut Self>, _ctx: &mut Self::Ctx<'_>) -> PullStep<T, (), Yes, Yes> {
        let this = self.get_mut();
        if this.ended {
            if !FUSED {
                this.env.after_end.set(this.env.after_end.get() + 1);
            }
            return PullStep::Ended(Yes);
        }
        match this.steps.pop_front() {
            Some(Some(x)) => {
                this.remaining -= 1;
                this.env.note_ready();
                PullStep::Ready(x, ())
            }
            Some(None) => {
                this.env.note_pend();
                PullStep::Pending(Yes)
            }
            None => {
                this.ended = true;
                PullStep::Ended(Yes)
            }
        }
    }

    fn size_hint(&self) -> (usize, Option<usize>) {
        (
            self.remaining.saturating_sub(self.hint.lo_slack),
            self.hint.hi_slack.map(|h| self.remaining + h),
        )
    }
}

impl<T, C: CtxSel> FusedPull for Src<T, C, true> {}

/// Scripted `futures::Stream` source (for `pull::stream`, `pull::stream_ready`).
pub struct SrcStream<T, const FUSED: bool> {
    env: Rc<Env>,
    steps: VecDeque<Option<T>>,
    remaining: usize,
    ended: bool,
}

impl<T: Clone, const FUSED: bool> SrcStream<T, FUSED> {
    pub fn new(env: &Rc<Env>, script: &[Option<T>]) -> Self {
        let pend = script.iter().filter(|s| s.is_none()).count();
        env.total_pend.set(env.total_pend.get() + pend as u64);
        SrcStream {
            env: env.clone(),
            steps: script.iter().cloned().collect(),
            remaining: script.len() - pend,
            ended: false,
        }
    }
}

impl<T, const FUSED: bool> Unpin for SrcStream<T, FUSED> {}

impl<T, const FUSED: bool> dfir_pipes::Stream for SrcStream<T, FUSED> {
    type Item = T;
    fn poll_next(self: Pin<&mut Self>, cx: &mut TaskCx<'_>) -> Poll<Option<T>> {
        let this = self.get_mut();
        if this.ended {
            if !FUSED {
                this.env.after_end.set(this.env.after_end.get() + 1);
            }
            return Poll::Ready(None);
        }
        match this.steps.pop_front() {
            Some(Some(x)) => {
                this.remaining -= 1;
                this.env.note_ready();
                Poll::Ready(Some(x))
            }
            Some(None) => {
                this.env.note_pend();
                cx.waker().wake_by_ref();
                Poll::Pending
            }
            None => {
                this.ended = true;
                Poll::Ready(None)
            }
        }
    }
    fn size_hint(&self) -> (usize, Option<usize>) {
        (self.remaining, Some(self.remaining))
    }
}

impl<T> dfir_pipes::FusedStream for SrcStream<T, true> {
    fn is_terminated(&self) -> bool {
        self.ended
    }
}

/// Inner stream produced by the closure of a `flat_map_stream` / item of `flatten_stream`.
/// Before every answer it consults the case's pending tape.
pub struct InnerStream<T> {
    env: Rc<Env>,
    items: VecDeque<T>,
}
impl<T> InnerStream<T> {
    pub fn new(env: &Rc<Env>, items: impl IntoIterator<Item = T>) -> Self {
        InnerStream {
            env: env.clone(),
            items: items.into_iter().collect(),
        }
    }
}
impl<T> Unpin for InnerStream<T> {}
impl<T> dfir_pipes::Stream for InnerStream<T> {
    type Item = T;
    fn poll_next(self: Pin<&mut Self>, cx: &mut TaskCx<'_>) -> Poll<Option<T>> {
        let this = self.get_mut();
        if this.env.tape_pending() {
            cx.waker().wake_by_ref();
            return Poll::Pending;
        }
        match this.items.pop_front() {
            Some(x) => {
                this.env.note_ready();
                Poll::Ready(Some(x))
            }
            None => Poll::Ready(None),
        }
    }
    fn size_hint(&self) -> (usize, Option<usize>) {
        (self.items.len(), Some(self.items.len()))
    }
}

/// Inner future produced by the closure of `filter_map_async` / pushed into `resolve_futures`.
pub struct InnerFut<T> {
    env: Rc<Env>,
    val: Option<T>,
    done: bool,
}
impl<T> InnerFut<T> {
    pub fn new(env: &Rc<Env>, val: T) -> Self {
        env.inflight.set(env.inflight.get() + 1);
        InnerFut {
            env: env.clone(),
            val: Some(val),
            done: false,
        }
    }
}
impl<T> Unpin for InnerFut<T> {}
impl<T> Future for InnerFut<T> {
    type Output = T;
    fn poll(self: Pin<&mut Self>, cx: &mut TaskCx<'_>) -> Poll<T> {
        let this = self.get_mut();
        if this.env.tape_pending() {
            cx.waker().wake_by_ref();
            return Poll::Pending;
        }
        this.done = true;
        this.env.inflight.set(this.env.inflight.get() - 1);
        this.env.note_ready();
        Poll::Ready(this.val.take().expect("InnerFut polled after completion"))
    }
}
impl<T> Drop for InnerFut<T> {
    fn drop(&mut self) {
        if !self.done {
            self.env.inflight.set(self.env.inflight.get() - 1);
        }
    }
}

/// Poll a pull once with a no-op task context, whatever its `Ctx` type is.
pub fn pull_once<P: Pull>(
    p: Pin<&mut P>,
) -> PullStep<P::Item, P::Meta, P::CanPend, P::CanEnd> {
    let mut cx = TaskCx::from_waker(Waker::noop());
    let ctx = <P::Ctx<'_> as dfir_pipes::Context<'_>>::from_task(&mut cx);
    p.pull(ctx)
}

pub fn poll_once<F: Future>(f: Pin<&mut F>) -> Poll<F::Output> {
    let mut cx = TaskCx::from_waker(Waker::noop());
    f.poll(&mut cx)
}

pub fn items_of<T: Clone>(s: &[Option<T>]) -> Vec<T> {
    s.iter().flatten().cloned().collect()
}

// ---------------------------------------------------------------------------------------------
// Enumerators
// ---------------------------------------------------------------------------------------------

/// All lists over `vals` of length `0..=max_len`.
pub fn lists<T: Clone>(max_len: usize, vals: &[T]) -> Vec<Vec<T>> {
    let mut out: Vec<Vec<T>> = vec![vec![]];
    let mut layer: Vec<Vec<T>> = vec![vec![]];
    for _ in 0..max_len {
        let mut next = vec![];
        for l in &layer {
            for v in vals {
                let mut l2 = l.clone();
                l2.push(v.clone());
                next.push(l2);
            }
        }
        out.extend(next.iter().cloned());
        layer = next;
    }
    out
}

/// Every way to insert `0..=k` `Pending` steps into `items` (slots: before each item and before
/// the end; several `Pending`s may share a slot).
pub fn placements<T: Clone>(items: &[T], k: usize) -> Vec<Script<T>> {
    let slots = items.len() + 1;
    let mut out = vec![];
    // non-decreasing slot sequences of length j
    fn rec<T: Clone>(
        items: &[T],
        slots: usize,
        j: usize,
        from: usize,
        cur: &mut Vec<usize>,
        out: &mut Vec<Script<T>>,
    ) {
        if cur.len() == j {
            let mut s: Script<T> = Vec::with_capacity(items.len() + j);
            for slot in 0..slots {
                for _ in cur.iter().filter(|c| **c == slot) {
                    s.push(None);
                }
                if slot < items.len() {
                    s.push(Some(items[slot].clone()));
                }
            }
            out.push(s);
            return;
        }
        for slot in from..slots {
            cur.push(slot);
            rec(items, slots, j, slot, cur, out);
            cur.pop();
        }
    }
    for j in 0..=k {
        rec(items, slots, j, 0, &mut vec![], &mut out);
    }
    out
}

/// All scripts: lists of length `0..=max_len` over `vals` × every placement of `0..=k` pendings.
pub fn scripts<T: Clone>(max_len: usize, vals: &[T], k: usize) -> Vec<Script<T>> {
    lists(max_len, vals)
        .iter()
        .flat_map(|l| placements(l, k))
        .collect()
}

/// All boolean tapes of length `t` with at most `k` `true`s, trailing `false`s trimmed
/// (an exhausted tape answers `false`), deduplicated.
pub fn tapes(t: usize, k: usize) -> Vec<Vec<bool>> {
    let mut set: BTreeSet<Vec<bool>> = BTreeSet::new();
    for mask in 0u32..(1u32 << t) {
        if mask.count_ones() as usize > k {
            continue;
        }
        let mut v: Vec<bool> = (0..t).map(|i| mask & (1 << i) != 0).collect();
        while v.last() == Some(&false) {
            v.pop();
        }
        set.insert(v);
    }
    set.into_iter().collect()
}

/// Sub-multiset relation used to classify item mismatches: is `a` a subsequence of `b`?
pub fn is_subsequence<T: PartialEq>(a: &[T], b: &[T]) -> bool {
    let mut it = b.iter();
    a.iter().all(|x| it.any(|y| y == x))
}
