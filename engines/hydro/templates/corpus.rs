// Hand-written corpus of Hydro programs for the `hydro` verification engine (copied into the
// generated `vh_progs` stageleft crate). Modelled on hydro_test::local, the tutorials and the
// hydro_lang doctests. Every program takes the process, declares its own embedded inputs
// (`in0`, `in1`, ...; singleton inputs `s0`, ...) and ends in `embedded_output("outN")` calls.
//
// Observation adapters are the ONLY place where `nondet!` appears in the "safe" programs
// (prefix `c_`); their nondeterminism is neutralised by the oracle (multiset / per-key
// subsequence / final value).
use hydro_lang::live_collections::keyed_singleton::KeyedSingletonBound;
use hydro_lang::live_collections::singleton::SingletonBound;
use hydro_lang::live_collections::stream::{AtLeastOnce, ExactlyOnce, NoOrder, Ordering, Retries, TotalOrder};
use hydro_lang::location::Location;
use hydro_lang::prelude::*;

type P<'a> = Process<'a, ()>;

// ---------------------------------------------------------------------------------------------
// observation adapters
// ---------------------------------------------------------------------------------------------

/// NoOrder stream -> embedded output (oracle compares multisets)
pub fn obs_bag<'a, T, O: Ordering>(s: Stream<T, P<'a>, Unbounded, O, ExactlyOnce>, name: &str) {
    s.assume_ordering::<TotalOrder>(nondet!(/** terminal observation adapter: compared as a multiset */))
        .embedded_output(name);
}

/// keyed stream with ordered values -> embedded output of (k, v) (oracle compares per-key subsequences)
pub fn obs_keyed<'a, K, V>(s: KeyedStream<K, V, P<'a>, Unbounded, TotalOrder, ExactlyOnce>, name: &str) {
    s.entries_partially_ordered(nondet!(/** terminal observation adapter: per-key order only */))
        .embedded_output(name);
}

/// singleton -> per-tick snapshot (oracle: final value / history invariant)
pub fn obs_final<'a, T, B: SingletonBound>(s: Singleton<T, P<'a>, B>, name: &str) {
    let tick = s.location().tick();
    s.snapshot(&tick, nondet!(/** terminal observation adapter: per-tick snapshot */))
        .all_ticks()
        .embedded_output(name);
}

/// optional -> per-tick snapshot (zero or one item per tick)
pub fn obs_final_opt<'a, T>(s: Optional<T, P<'a>, Unbounded>, name: &str) {
    let tick = s.location().tick();
    s.snapshot(&tick, nondet!(/** terminal observation adapter: per-tick snapshot */))
        .all_ticks()
        .embedded_output(name);
}

/// keyed singleton with changing values -> per-tick snapshot of its entries
pub fn obs_final_keyed<'a, K, V, B: KeyedSingletonBound<ValueBound = Unbounded>>(
    s: KeyedSingleton<K, V, P<'a>, B>,
    name: &str,
) {
    let tick = s.location().tick();
    s.snapshot(&tick, nondet!(/** terminal observation adapter: per-tick snapshot */))
        .entries()
        .all_ticks()
        .assume_ordering::<TotalOrder>(nondet!(/** terminal observation adapter: multiset per tick */))
        .embedded_output(name);
}

// ---------------------------------------------------------------------------------------------
// safe top-level programs (C28 / C29 / C33)
// ---------------------------------------------------------------------------------------------

pub fn c_map_filter<'a>(p: &P<'a>) {
    p.embedded_input::<i64>("in0")
        .map(q!(|x| x * 2 + 1))
        .filter(q!(|x| *x % 3 != 0))
        .embedded_output("out0");
}

pub fn c_flat_map<'a>(p: &P<'a>) {
    p.embedded_input::<i64>("in0")
        .flat_map_ordered(q!(|x| vec![x, x + 10]))
        .inspect(q!(|_x| {}))
        .embedded_output("out0");
}

pub fn c_filter_map_enumerate<'a>(p: &P<'a>) {
    p.embedded_input::<i64>("in0")
        .filter_map(q!(|x| if x % 2 == 0 { Some(x / 2) } else { None }))
        .enumerate()
        .embedded_output("out0");
}

pub fn c_scan_sum<'a>(p: &P<'a>) {
    p.embedded_input::<i64>("in0")
        .scan(
            q!(|| 0i64),
            q!(|acc, x| {
                *acc += x;
                Some(*acc)
            }),
        )
        .embedded_output("out0");
}

pub fn c_scan_stop<'a>(p: &P<'a>) {
    p.embedded_input::<i64>("in0")
        .scan(
            q!(|| 0i64),
            q!(|acc, x| {
                *acc += x;
                if *acc > 6 { None } else { Some(*acc) }
            }),
        )
        .embedded_output("out0");
}

pub fn c_unique<'a>(p: &P<'a>) {
    p.embedded_input::<i64>("in0").unique().embedded_output("out0");
}

pub fn c_limit<'a>(p: &P<'a>) {
    p.embedded_input::<i64>("in0").limit(q!(3)).embedded_output("out0");
}

pub fn c_join<'a>(p: &P<'a>) {
    let a = p.embedded_input::<(i64, i64)>("in0");
    let b = p.embedded_input::<(i64, i64)>("in1");
    obs_bag(a.join(b), "out0");
}

pub fn c_join_count<'a>(p: &P<'a>) {
    let a = p.embedded_input::<(i64, i64)>("in0");
    let b = p.embedded_input::<(i64, i64)>("in1");
    obs_final(a.join(b).count(), "out0");
}

pub fn c_join_chain3<'a>(p: &P<'a>) {
    // two-level join with a shared (tee'd) middle input
    let a = p.embedded_input::<(i64, i64)>("in0");
    let b = p.embedded_input::<(i64, i64)>("in1");
    let ab = a.join(b.clone()).map(q!(|(k, (x, y))| (x, k + y)));
    obs_bag(ab.join(b), "out0");
}

pub fn c_cross_product<'a>(p: &P<'a>) {
    let a = p.embedded_input::<i64>("in0");
    let b = p.embedded_input::<i64>("in1");
    obs_bag(a.cross_product(b), "out0");
}

pub fn c_cross_bounded<'a>(p: &P<'a>) {
    // right side bounded (top-level source_iter): left order is preserved
    let a = p.embedded_input::<i64>("in0");
    let b = p.source_iter(q!(vec![10i64, 20]));
    a.cross_product(b).embedded_output("out0");
}

pub fn c_join_bounded<'a>(p: &P<'a>) {
    let a = p.embedded_input::<(i64, i64)>("in0");
    let b = p.source_iter(q!(vec![(0i64, 100i64), (1, 101), (1, 102), (3, 103)]));
    a.join(b).embedded_output("out0");
}

pub fn c_anti_join_bounded<'a>(p: &P<'a>) {
    let a = p.embedded_input::<(i64, i64)>("in0");
    let neg = p.source_iter(q!(vec![1i64, 3]));
    a.anti_join(neg).embedded_output("out0");
}

pub fn c_filter_not_in_bounded<'a>(p: &P<'a>) {
    let a = p.embedded_input::<i64>("in0");
    let neg = p.source_iter(q!(vec![0i64, 2]));
    a.filter_not_in(neg).embedded_output("out0");
}

pub fn c_chain_bounded_first<'a>(p: &P<'a>) {
    // bounded top-level prefix chained in front of an unbounded stream: order is prefix, then input
    let head = p.source_iter(q!(vec![100i64, 200]));
    head.chain(p.embedded_input::<i64>("in0").map(q!(|x| x + 1)))
        .embedded_output("out0");
}

pub fn c_fold_sum<'a>(p: &P<'a>) {
    let s = p.embedded_input::<i64>("in0").fold(q!(|| 0i64), q!(|acc, x| *acc += x));
    obs_final(s, "out0");
}

pub fn c_fold_noorder<'a>(p: &P<'a>) {
    // commutative fold over an unordered (merged) stream
    let a = p.embedded_input::<i64>("in0");
    let b = p.embedded_input::<i64>("in1").map(q!(|x| x + 100));
    let s = a.merge_unordered(b).fold(
        q!(|| 0i64),
        q!(|acc, x| *acc += x, commutative = manual_proof!(/** integer addition */)),
    );
    obs_final(s, "out0");
}

pub fn c_collect_vec<'a>(p: &P<'a>) {
    obs_final(p.embedded_input::<i64>("in0").collect_vec(), "out0");
}

pub fn c_count<'a>(p: &P<'a>) {
    obs_final(p.embedded_input::<i64>("in0").count(), "out0");
}

pub fn c_max_min<'a>(p: &P<'a>) {
    let a = p.embedded_input::<i64>("in0");
    obs_final_opt(a.clone().max(), "out0");
    obs_final_opt(a.min(), "out1");
}

pub fn c_first_last<'a>(p: &P<'a>) {
    let a = p.embedded_input::<i64>("in0");
    obs_final_opt(a.clone().first(), "out0");
    obs_final_opt(a.last(), "out1");
}

pub fn c_reduce<'a>(p: &P<'a>) {
    let r = p.embedded_input::<i64>("in0").reduce(q!(|acc, x| *acc = *acc * 2 + x));
    obs_final_opt(r, "out0");
}

pub fn c_merge_unordered<'a>(p: &P<'a>) {
    let a = p.embedded_input::<i64>("in0");
    let b = p.embedded_input::<i64>("in1").map(q!(|x| x + 100));
    obs_bag(a.merge_unordered(b), "out0");
}

pub fn c_singleton_input<'a>(p: &P<'a>) {
    // hydro_test::local::singleton_input
    let names = p.embedded_input::<i64>("in0");
    let prefix = p.embedded_singleton_input::<i64>("s0");
    names
        .cross_singleton(prefix)
        .map(q!(|(n, pre)| pre * 1000 + n))
        .embedded_output("out0");
}

pub fn c_chat_replay<'a>(p: &P<'a>) {
    // hydro_test::local::chat_app with replay_messages = true
    let users = p.embedded_input::<i64>("in0");
    let messages = p.embedded_input::<i64>("in1").map(q!(|m| m + 1000));
    obs_bag(users.cross_product(messages), "out0");
}

pub fn c_tee_two_outputs<'a>(p: &P<'a>) {
    // shared subexpression feeding a stateless and a stateful consumer
    let a = p.embedded_input::<i64>("in0").map(q!(|x| x + 1));
    a.clone().filter(q!(|x| *x % 2 == 0)).embedded_output("out0");
    obs_final(a.fold(q!(|| 0i64), q!(|acc, x| *acc = *acc * 3 + x)), "out1");
}

pub fn c_partition<'a>(p: &P<'a>) {
    let (even, odd) = p.embedded_input::<i64>("in0").partition(q!(|x| *x % 2 == 0));
    even.embedded_output("out0");
    odd.enumerate().embedded_output("out1");
}

pub fn c_source_iter_fold<'a>(p: &P<'a>) {
    // bounded top-level source: takes the fold_no_replay / reduce_no_replay path
    let src = p.source_iter(q!(vec![1i64, 2, 3, 4]));
    src.clone()
        .fold(q!(|| 0i64), q!(|acc, x| *acc += x))
        .into_stream()
        .embedded_output("out0");
    src.reduce(q!(|acc, x| *acc = *acc * 10 + x))
        .into_stream()
        .embedded_output("out1");
    // keep an embedded input so the schedule has something to partition
    p.embedded_input::<i64>("in0").embedded_output("out2");
}

pub fn c_bounded_singleton_cross<'a>(p: &P<'a>) {
    // bounded top-level singleton crossed with an unbounded stream
    let total = p
        .source_iter(q!(vec![1i64, 2, 3]))
        .fold(q!(|| 0i64), q!(|acc, x| *acc += x));
    p.embedded_input::<i64>("in0")
        .cross_singleton(total)
        .map(q!(|(x, t)| x * 100 + t))
        .embedded_output("out0");
}

pub fn c_threshold<'a>(p: &P<'a>) {
    // monotone singleton (count) crossing a threshold releases exactly once
    let cnt = p.embedded_input::<i64>("in0").count();
    let th = p.singleton(q!(3usize));
    cnt.threshold_greater_or_equal(th).embedded_output("out0");
}

pub fn c_singleton_map_filter<'a>(p: &P<'a>) {
    let s = p.embedded_input::<i64>("in0").fold(q!(|| 0i64), q!(|acc, x| *acc += x));
    obs_final(s.clone().map(q!(|v| v * 2)), "out0");
    obs_final_opt(s.filter(q!(|v| *v % 2 == 0)), "out1");
}

pub fn c_optional_ops<'a>(p: &P<'a>) {
    let a = p.embedded_input::<i64>("in0");
    let mx = a.clone().max();
    let first = a.first();
    obs_final(mx.clone().is_some(), "out0");
    obs_final(mx.clone().unwrap_or(p.singleton(q!(-1i64)).into()), "out1");
    obs_final_opt(first.clone().or(mx.clone()), "out2");
    obs_final(first.into_singleton(), "out3");
}

// ---- keyed ---------------------------------------------------------------------------------

pub fn c_keyed_fold<'a>(p: &P<'a>) {
    let ks = p.embedded_input::<(i64, i64)>("in0").into_keyed();
    let f = ks.fold(q!(|| 0i64), q!(|acc, v| *acc = *acc * 2 + v));
    obs_final_keyed(f, "out0");
}

pub fn c_keyed_reduce<'a>(p: &P<'a>) {
    let ks = p.embedded_input::<(i64, i64)>("in0").into_keyed();
    let f = ks.reduce(q!(|acc, v| *acc = *acc * 3 + v));
    obs_final_keyed(f, "out0");
}

pub fn c_keyed_first<'a>(p: &P<'a>) {
    let ks = p.embedded_input::<(i64, i64)>("in0").into_keyed();
    obs_bag(ks.first().entries(), "out0");
}

pub fn c_keyed_scan<'a>(p: &P<'a>) {
    let ks = p.embedded_input::<(i64, i64)>("in0").into_keyed();
    let s = ks.scan(
        q!(|| 0i64),
        q!(|acc, v| {
            *acc += v;
            Some(*acc)
        }),
    );
    obs_keyed(s, "out0");
}

pub fn c_keyed_enumerate<'a>(p: &P<'a>) {
    let ks = p.embedded_input::<(i64, i64)>("in0").into_keyed();
    obs_keyed(ks.enumerate(), "out0");
}

pub fn c_keyed_map_filter<'a>(p: &P<'a>) {
    let ks = p.embedded_input::<(i64, i64)>("in0").into_keyed();
    let s = ks.map_with_key(q!(|(k, v)| k * 10 + v)).filter(q!(|v| *v % 4 != 0));
    obs_keyed(s, "out0");
}

pub fn c_keyed_limit<'a>(p: &P<'a>) {
    let ks = p.embedded_input::<(i64, i64)>("in0").into_keyed();
    obs_keyed(ks.limit(q!(2)), "out0");
}

pub fn c_keyed_flat_map<'a>(p: &P<'a>) {
    let ks = p.embedded_input::<(i64, i64)>("in0").into_keyed();
    obs_keyed(ks.flat_map_ordered(q!(|v| vec![v, v + 10])), "out0");
}

pub fn c_value_counts<'a>(p: &P<'a>) {
    let ks = p.embedded_input::<(i64, i64)>("in0").into_keyed();
    obs_final_keyed(ks.value_counts(), "out0");
}

pub fn c_key_count<'a>(p: &P<'a>) {
    let ks = p.embedded_input::<(i64, i64)>("in0").into_keyed();
    obs_final(ks.fold(q!(|| 0i64), q!(|acc, v| *acc += v)).key_count(), "out0");
}

pub fn c_keyed_entries_keys<'a>(p: &P<'a>) {
    let ks = p.embedded_input::<(i64, i64)>("in0").into_keyed();
    obs_bag(ks.clone().entries(), "out0");
    obs_bag(ks.clone().keys(), "out1");
    obs_bag(ks.values(), "out2");
}

pub fn c_keyed_join_stream<'a>(p: &P<'a>) {
    let a = p.embedded_input::<(i64, i64)>("in0").into_keyed();
    let b = p.embedded_input::<(i64, i64)>("in1").into_keyed();
    obs_bag(a.join_keyed_stream(b).entries(), "out0");
}

pub fn c_keyed_unique<'a>(p: &P<'a>) {
    let ks = p.embedded_input::<(i64, i64)>("in0").into_keyed();
    obs_bag(ks.unique().entries(), "out0");
}

pub fn c_keyed_fold_commutative<'a>(p: &P<'a>) {
    // keyed fold over an unordered keyed stream with a commutative aggregation
    let a = p.embedded_input::<(i64, i64)>("in0").into_keyed();
    let b = p.embedded_input::<(i64, i64)>("in1").into_keyed();
    let f = a.merge_unordered(b).fold(
        q!(|| 0i64),
        q!(|acc, v| *acc += v, commutative = manual_proof!(/** integer addition */)),
    );
    obs_final_keyed(f, "out0");
}

pub fn c_keyed_threshold<'a>(p: &P<'a>) {
    let ks = p.embedded_input::<(i64, i64)>("in0").into_keyed();
    let counts = ks.value_counts();
    obs_bag(
        counts.threshold_greater_or_equal_uniform(p.singleton(q!(2usize))).entries(),
        "out0",
    );
}

// ---------------------------------------------------------------------------------------------
// tick programs (C30): the batching is *given* by the schedule, the oracle is per tick
// ---------------------------------------------------------------------------------------------

pub fn t_passthrough<'a>(p: &P<'a>) {
    let tick = p.tick();
    p.embedded_input::<i64>("in0")
        .batch(&tick, nondet!(/** batch boundaries are the schedule */))
        .all_ticks()
        .embedded_output("out0");
}

pub fn t_fold_count<'a>(p: &P<'a>) {
    let tick = p.tick();
    let b = p.embedded_input::<i64>("in0").batch(&tick, nondet!(/** schedule */));
    b.clone()
        .fold(q!(|| 0i64), q!(|acc, x| *acc = *acc * 2 + x))
        .all_ticks()
        .embedded_output("out0");
    b.count().all_ticks().embedded_output("out1");
}

pub fn t_reduce_max_min<'a>(p: &P<'a>) {
    let tick = p.tick();
    let b = p.embedded_input::<i64>("in0").batch(&tick, nondet!(/** schedule */));
    b.clone().max().all_ticks().embedded_output("out0");
    b.clone().min().all_ticks().embedded_output("out1");
    b.reduce(q!(|acc, x| *acc = *acc * 2 + x)).all_ticks().embedded_output("out2");
}

pub fn t_first_last<'a>(p: &P<'a>) {
    let tick = p.tick();
    let b = p.embedded_input::<i64>("in0").batch(&tick, nondet!(/** schedule */));
    b.clone().first().all_ticks().embedded_output("out0");
    b.clone().last().all_ticks().embedded_output("out1");
    b.is_empty().all_ticks().embedded_output("out2");
}

pub fn t_sort_limit<'a>(p: &P<'a>) {
    let tick = p.tick();
    let b = p.embedded_input::<i64>("in0").batch(&tick, nondet!(/** schedule */));
    b.clone().sort().all_ticks().embedded_output("out0");
    b.limit(q!(2)).all_ticks().embedded_output("out1");
}

pub fn t_enumerate_unique<'a>(p: &P<'a>) {
    let tick = p.tick();
    let b = p.embedded_input::<i64>("in0").batch(&tick, nondet!(/** schedule */));
    b.clone().enumerate().all_ticks().embedded_output("out0");
    b.unique().all_ticks().embedded_output("out1");
}

pub fn t_scan<'a>(p: &P<'a>) {
    let tick = p.tick();
    let b = p.embedded_input::<i64>("in0").batch(&tick, nondet!(/** schedule */));
    b.scan(
        q!(|| 0i64),
        q!(|acc, x| {
            *acc += x;
            Some(*acc)
        }),
    )
    .all_ticks()
    .embedded_output("out0");
}

pub fn t_cross_singleton<'a>(p: &P<'a>) {
    let tick = p.tick();
    let b = p.embedded_input::<i64>("in0").batch(&tick, nondet!(/** schedule */));
    let n = b.clone().count();
    b.cross_singleton(n).all_ticks().embedded_output("out0");
}

pub fn t_join<'a>(p: &P<'a>) {
    let tick = p.tick();
    let a = p.embedded_input::<(i64, i64)>("in0").batch(&tick, nondet!(/** schedule */));
    let b = p.embedded_input::<(i64, i64)>("in1").batch(&tick, nondet!(/** schedule */));
    a.join(b).all_ticks().embedded_output("out0");
}

pub fn t_cross_product<'a>(p: &P<'a>) {
    let tick = p.tick();
    let a = p.embedded_input::<i64>("in0").batch(&tick, nondet!(/** schedule */));
    let b = p.embedded_input::<i64>("in1").batch(&tick, nondet!(/** schedule */));
    a.cross_product(b).all_ticks().embedded_output("out0");
}

pub fn t_anti_join<'a>(p: &P<'a>) {
    let tick = p.tick();
    let a = p.embedded_input::<(i64, i64)>("in0").batch(&tick, nondet!(/** schedule */));
    let b = p.embedded_input::<i64>("in1").batch(&tick, nondet!(/** schedule */));
    a.clone().anti_join(b.clone()).all_ticks().embedded_output("out0");
    a.map(q!(|(k, _)| k)).filter_not_in(b).all_ticks().embedded_output("out1");
}

pub fn t_chain<'a>(p: &P<'a>) {
    let tick = p.tick();
    let a = p.embedded_input::<i64>("in0").batch(&tick, nondet!(/** schedule */));
    let b = p.embedded_input::<i64>("in1").batch(&tick, nondet!(/** schedule */));
    a.clone().map(q!(|x| x + 100)).chain(b).chain(a).all_ticks().embedded_output("out0");
}

pub fn t_defer<'a>(p: &P<'a>) {
    let tick = p.tick();
    let b = p.embedded_input::<i64>("in0").batch(&tick, nondet!(/** schedule */));
    b.clone().defer_tick().all_ticks().embedded_output("out0");
    b.clone().defer_tick().defer_tick().all_ticks().embedded_output("out1");
    // elements new in this tick w.r.t. the previous one (doctest of defer_tick)
    b.clone().filter_not_in(b.defer_tick()).all_ticks().embedded_output("out2");
}

pub fn t_defer_singleton<'a>(p: &P<'a>) {
    let tick = p.tick();
    let b = p.embedded_input::<i64>("in0").batch(&tick, nondet!(/** schedule */));
    let c = b.count();
    c.clone().into_stream().defer_tick().all_ticks().embedded_output("out0");
    b_max_defer(p, &tick);
    c.all_ticks().embedded_output("out1");
}

fn b_max_defer<'a>(p: &P<'a>, tick: &Tick<P<'a>>) {
    let b = p.embedded_input::<i64>("in1").batch(tick, nondet!(/** schedule */));
    b.max().defer_tick().all_ticks().embedded_output("out2");
}

pub fn t_cycle_sum<'a>(p: &P<'a>) {
    // running total carried through a tick cycle with an initial value
    let tick = p.tick();
    let b = p.embedded_input::<i64>("in0").batch(&tick, nondet!(/** schedule */));
    let (handle, prev) = tick.cycle_with_initial(tick.singleton(q!(0i64)));
    let cur = b
        .fold(q!(|| 0i64), q!(|acc, x| *acc += x))
        .zip(prev)
        .map(q!(|(a, b)| a + b));
    handle.complete_next_tick(cur.clone());
    cur.all_ticks().embedded_output("out0");
}

pub fn t_cycle_stream<'a>(p: &P<'a>) {
    // stream cycle: items keep circulating (+100 per tick) until they reach 300
    let tick = p.tick();
    let b = p.embedded_input::<i64>("in0").batch(&tick, nondet!(/** schedule */));
    let (handle, prev) = tick.cycle::<Stream<i64, Tick<P<'a>>, Bounded, TotalOrder, ExactlyOnce>, _>();
    let cur = b.chain(prev.map(q!(|x| x + 100)).filter(q!(|x| *x < 300)));
    handle.complete_next_tick(cur.clone());
    cur.all_ticks().embedded_output("out0");
}

pub fn t_cycle_optional<'a>(p: &P<'a>) {
    // "latest maximum so far" carried as an Optional through a cycle
    let tick = p.tick();
    let b = p.embedded_input::<i64>("in0").batch(&tick, nondet!(/** schedule */));
    let (handle, prev) = tick.cycle::<Optional<i64, Tick<P<'a>>, Bounded>, _>();
    let cur = b.max().into_stream().chain(prev.into_stream()).max();
    handle.complete_next_tick(cur.clone());
    cur.all_ticks().embedded_output("out0");
}

pub fn t_across_ticks<'a>(p: &P<'a>) {
    let tick = p.tick();
    let b = p.embedded_input::<i64>("in0").batch(&tick, nondet!(/** schedule */));
    b.clone().across_ticks(|s| s.count()).all_ticks().embedded_output("out0");
    b.across_ticks(|s| s.fold(q!(|| 0i64), q!(|acc, x| *acc = *acc * 2 + x)))
        .all_ticks()
        .embedded_output("out1");
}

pub fn t_first_tick<'a>(p: &P<'a>) {
    let tick = p.tick();
    let b = p.embedded_input::<i64>("in0").batch(&tick, nondet!(/** schedule */));
    tick.optional_first_tick(q!(5i64))
        .unwrap_or(tick.singleton(q!(123i64)))
        .all_ticks()
        .embedded_output("out0");
    // tick-scoped source_iter is re-materialised on every tick
    tick.source_iter(q!(vec![7i64, 8])).chain(b).all_ticks().embedded_output("out1");
}

pub fn t_keyed_fold<'a>(p: &P<'a>) {
    let tick = p.tick();
    let b = p
        .embedded_input::<(i64, i64)>("in0")
        .batch(&tick, nondet!(/** schedule */))
        .into_keyed();
    b.clone()
        .fold(q!(|| 0i64), q!(|acc, v| *acc = *acc * 2 + v))
        .entries()
        .all_ticks()
        .assume_ordering::<TotalOrder>(nondet!(/** observation: multiset per tick */))
        .embedded_output("out0");
    b.clone()
        .first()
        .entries()
        .all_ticks()
        .assume_ordering::<TotalOrder>(nondet!(/** observation: multiset per tick */))
        .embedded_output("out1");
    b.value_counts()
        .entries()
        .all_ticks()
        .assume_ordering::<TotalOrder>(nondet!(/** observation: multiset per tick */))
        .embedded_output("out2");
}

pub fn t_keyed_scan<'a>(p: &P<'a>) {
    let tick = p.tick();
    let b = p
        .embedded_input::<(i64, i64)>("in0")
        .batch(&tick, nondet!(/** schedule */))
        .into_keyed();
    b.scan(
        q!(|| 0i64),
        q!(|acc, v| {
            *acc += v;
            Some(*acc)
        }),
    )
    .entries_partially_ordered(nondet!(/** observation: per-key order */))
    .all_ticks()
    .embedded_output("out0");
}

pub fn t_count_elems<'a>(p: &P<'a>) {
    // hydro_test::local::count_elems (sliced! with use::batch)
    let input = p.embedded_input::<i64>("in0");
    let out = sliced! {
        let batch = use::batch(input.map(q!(|_| 1i64)), nondet!(/** schedule */));
        batch.fold(q!(|| 0i64), q!(|a, b| *a += b)).into_stream()
    };
    out.embedded_output("out0");
}

pub fn t_tee_tick_and_top<'a>(p: &P<'a>) {
    // one shared stream feeding both a tick region and top-level state
    let tick = p.tick();
    let a = p.embedded_input::<i64>("in0").map(q!(|x| x + 1));
    a.clone()
        .batch(&tick, nondet!(/** schedule */))
        .count()
        .all_ticks()
        .embedded_output("out0");
    obs_final(a.count(), "out1");
}

// ---------------------------------------------------------------------------------------------
// C32: one micro-program per trusted call site (assume_ordering_trusted / assume_retries_trusted /
// _trusted_bounded in hydro_lang/src/live_collections). The input is typed as weak as the operator
// accepts through the *safe* weaken_* calls; the harness plays the adversary the type allows.
// `x_*_top`: eventual value at top level; `x_*_tick`: per-batch value inside a tick.
// ---------------------------------------------------------------------------------------------

fn weak<'a>(p: &P<'a>, name: &str) -> Stream<i64, P<'a>, Unbounded, NoOrder, AtLeastOnce> {
    p.embedded_input::<i64>(name)
        .weaken_ordering::<NoOrder>()
        .weaken_retries::<AtLeastOnce>()
}

pub fn x_max_min_top<'a>(p: &P<'a>) {
    // stream/mod.rs max / min: assume_retries_trusted + assume_ordering_trusted_bounded
    let w = weak(p, "in0");
    obs_final_opt(w.clone().max(), "out0");
    obs_final_opt(w.min(), "out1");
}

pub fn x_max_min_tick<'a>(p: &P<'a>) {
    let tick = p.tick();
    let b = weak(p, "in0").batch(&tick, nondet!(/** schedule */));
    b.clone().max().all_ticks().embedded_output("out0");
    b.min().all_ticks().embedded_output("out1");
}

pub fn x_count_top<'a>(p: &P<'a>) {
    // stream/mod.rs count: assume_ordering_trusted (input NoOrder, ExactlyOnce)
    obs_final(p.embedded_input::<i64>("in0").weaken_ordering::<NoOrder>().count(), "out0");
}

pub fn x_count_tick<'a>(p: &P<'a>) {
    let tick = p.tick();
    p.embedded_input::<i64>("in0")
        .weaken_ordering::<NoOrder>()
        .batch(&tick, nondet!(/** schedule */))
        .count()
        .all_ticks()
        .embedded_output("out0");
}

pub fn x_first_last_top<'a>(p: &P<'a>) {
    // stream/mod.rs first / last: assume_retries_trusted (input TotalOrder, AtLeastOnce)
    let a = p.embedded_input::<i64>("in0").weaken_retries::<AtLeastOnce>();
    obs_final_opt(a.clone().first(), "out0");
    obs_final_opt(a.last(), "out1");
}

pub fn x_first_last_tick<'a>(p: &P<'a>) {
    let tick = p.tick();
    let b = p
        .embedded_input::<i64>("in0")
        .weaken_retries::<AtLeastOnce>()
        .batch(&tick, nondet!(/** schedule */));
    b.clone().first().all_ticks().embedded_output("out0");
    b.last().all_ticks().embedded_output("out1");
}

pub fn x_is_empty_tick<'a>(p: &P<'a>) {
    // stream/mod.rs is_empty: assume_ordering_trusted on a bounded stream
    let tick = p.tick();
    weak(p, "in0")
        .filter(q!(|x| *x >= 2))
        .batch(&tick, nondet!(/** schedule */))
        .is_empty()
        .all_ticks()
        .embedded_output("out0");
}

pub fn x_repeat_with_keys_tick<'a>(p: &P<'a>) {
    // stream/mod.rs repeat_with_keys: keys().assume_ordering_trusted
    let tick = p.tick();
    let keys = p
        .embedded_input::<(i64, i64)>("in0")
        .batch(&tick, nondet!(/** schedule */))
        .into_keyed()
        .first();
    let vals = p.embedded_input::<i64>("in1").batch(&tick, nondet!(/** schedule */));
    vals.repeat_with_keys(keys)
        .entries_partially_ordered(nondet!(/** observation: per-key order */))
        .all_ticks()
        .embedded_output("out0");
}

pub fn x_noop_casts_top<'a>(p: &P<'a>) {
    // weaken_ordering / weaken_retries / make_totally_ordered / make_exactly_once are no-ops
    let a = p.embedded_input::<i64>("in0");
    a.clone().make_totally_ordered().make_exactly_once().embedded_output("out0");
    obs_bag(a.clone().weaken_ordering::<NoOrder>(), "out1");
    obs_bag(a.clone().weaken_retries::<AtLeastOnce>().unique(), "out2");
    a.weaken_ordering::<TotalOrder>().weaken_retries::<ExactlyOnce>().embedded_output("out3");
}

pub fn x_keyed_noop_casts_top<'a>(p: &P<'a>) {
    let ks = p.embedded_input::<(i64, i64)>("in0").into_keyed();
    obs_keyed(ks.clone().make_totally_ordered().make_exactly_once(), "out0");
    obs_bag(ks.clone().weaken_ordering::<NoOrder>().entries(), "out1");
    obs_bag(ks.weaken_retries::<AtLeastOnce>().unique().entries(), "out2");
}

pub fn x_value_counts_top<'a>(p: &P<'a>) {
    // keyed_stream value_counts: make_exactly_once + assume_ordering_trusted (values NoOrder)
    let ks = p
        .embedded_input::<(i64, i64)>("in0")
        .into_keyed()
        .weaken_ordering::<NoOrder>();
    obs_final_keyed(ks.value_counts(), "out0");
}

pub fn x_value_counts_tick<'a>(p: &P<'a>) {
    let tick = p.tick();
    p.embedded_input::<(i64, i64)>("in0")
        .into_keyed()
        .weaken_ordering::<NoOrder>()
        .batch(&tick, nondet!(/** schedule */))
        .value_counts()
        .entries()
        .all_ticks()
        .assume_ordering::<TotalOrder>(nondet!(/** observation: multiset per tick */))
        .embedded_output("out0");
}

pub fn x_ks_into_singleton_top<'a>(p: &P<'a>) {
    // keyed_singleton into_singleton (bounded values: line 689; changing values: line 429)
    let ks = p.embedded_input::<(i64, i64)>("in0").into_keyed();
    obs_final(
        ks.clone().first().into_singleton().map(q!(|m| {
            let mut v: Vec<(i64, i64)> = m.into_iter().collect();
            v.sort();
            v
        })),
        "out0",
    );
    obs_final(
        ks.fold(q!(|| 0i64), q!(|acc, v| *acc = *acc * 2 + v))
            .into_singleton()
            .map(q!(|m| {
                let mut v: Vec<(i64, i64)> = m.into_iter().collect();
                v.sort();
                v
            })),
        "out1",
    );
}

pub fn x_ks_into_singleton_tick<'a>(p: &P<'a>) {
    let tick = p.tick();
    let ks = p
        .embedded_input::<(i64, i64)>("in0")
        .batch(&tick, nondet!(/** schedule */))
        .into_keyed();
    ks.clone()
        .first()
        .into_singleton()
        .map(q!(|m| {
            let mut v: Vec<(i64, i64)> = m.into_iter().collect();
            v.sort();
            v
        }))
        .all_ticks()
        .embedded_output("out0");
    ks.first().key_count().all_ticks().embedded_output("out1");
}

pub fn x_ks_get_max_key_top<'a>(p: &P<'a>) {
    // keyed_singleton get_max_key: entries().assume_ordering_trusted().reduce(max by key)
    let ks = p.embedded_input::<(i64, i64)>("in0").into_keyed();
    obs_final_opt(ks.first().get_max_key(), "out0");
}

pub fn x_ks_get_max_key_tick<'a>(p: &P<'a>) {
    let tick = p.tick();
    p.embedded_input::<(i64, i64)>("in0")
        .batch(&tick, nondet!(/** schedule */))
        .into_keyed()
        .first()
        .get_max_key()
        .all_ticks()
        .embedded_output("out0");
}

// ---------------------------------------------------------------------------------------------
// reproducers of confirmed findings (prefix k_): kept in the corpus so that every run re-checks
// them under their exact signature (listed in /verif/known_findings.json)
// ---------------------------------------------------------------------------------------------

pub fn k_zip_into_stream<'a>(p: &P<'a>) {
    // top-level zip of two bounded singletons, turned into a (bounded) stream: must hold ONE element
    p.singleton(q!(3i64))
        .zip(p.singleton(q!(4i64)))
        .into_stream()
        .embedded_output("out0");
    p.embedded_input::<i64>("in0").embedded_output("out1");
}

pub fn k_zip_count<'a>(p: &P<'a>) {
    // ... and its count must be the frozen value 1
    p.singleton(q!(3i64))
        .zip(p.singleton(q!(4i64)))
        .into_stream()
        .count()
        .into_stream()
        .embedded_output("out0");
    p.embedded_input::<i64>("in0").embedded_output("out1");
}

// ---------------------------------------------------------------------------------------------
// atomic regions: cross-tick-stateful operators applied inside `atomic() .. end_atomic()` at top
// level (safe: the answers are those of the plain top-level program), and views that enter an
// atomic / cross-tick context from inside a tick (`across_ticks`)
// ---------------------------------------------------------------------------------------------

/// atomic singleton / optional / keyed singleton -> one observation per slice (oracle: final value)
macro_rules! obs_atomic {
    ($x:expr, $name:expr) => {{
        let __x = $x;
        sliced! {
            let s = use::atomic(__x, nondet!(/** terminal observation adapter: per-tick snapshot */));
            s.into_stream()
        }
        .embedded_output($name)
    }};
}

pub fn a_enumerate<'a>(p: &P<'a>) {
    p.embedded_input::<i64>("in0").atomic().enumerate().end_atomic().embedded_output("out0");
}

pub fn a_scan_unique_limit<'a>(p: &P<'a>) {
    let a = p.embedded_input::<i64>("in0").atomic();
    a.clone()
        .scan(
            q!(|| 0i64),
            q!(|acc, x| {
                *acc += x;
                Some(*acc)
            }),
        )
        .end_atomic()
        .embedded_output("out0");
    a.clone().unique().end_atomic().embedded_output("out1");
    a.limit(q!(3)).end_atomic().embedded_output("out2");
}

pub fn a_fold_count<'a>(p: &P<'a>) {
    let a = p.embedded_input::<i64>("in0").atomic();
    obs_atomic!(a.clone().count(), "out0");
    obs_atomic!(a.clone().fold(q!(|| 0i64), q!(|acc, x| *acc = *acc * 2 + x)), "out1");
    a.end_atomic().embedded_output("out2");
}

pub fn a_reduce_max_first<'a>(p: &P<'a>) {
    let a = p.embedded_input::<i64>("in0").atomic();
    obs_atomic!(a.clone().max(), "out0");
    obs_atomic!(a.clone().first(), "out1");
    obs_atomic!(a.reduce(q!(|acc, x| *acc = *acc * 2 + x)), "out2");
}

pub fn a_selfjoin<'a>(p: &P<'a>) {
    let a = p.embedded_input::<(i64, i64)>("in0").atomic();
    let j = a.clone().join(a.map(q!(|(k, v)| (k, v + 100))));
    obs_bag(j.end_atomic(), "out0");
}

pub fn a_keyed<'a>(p: &P<'a>) {
    let ks = p.embedded_input::<(i64, i64)>("in0").into_keyed().atomic();
    obs_keyed(ks.clone().enumerate().end_atomic(), "out0");
    obs_keyed(
        ks.clone()
            .scan(
                q!(|| 0i64),
                q!(|acc, v| {
                    *acc += v;
                    Some(*acc)
                }),
            )
            .end_atomic(),
        "out1",
    );
    obs_bag(ks.clone().first().end_atomic().entries(), "out2");
    let f = ks.fold(q!(|| 0i64), q!(|acc, v| *acc = *acc * 2 + v));
    sliced! {
        let s = use::atomic(f, nondet!(/** terminal observation adapter: per-tick snapshot */));
        s.entries()
    }
    .assume_ordering::<TotalOrder>(nondet!(/** terminal observation adapter: multiset per tick */))
    .embedded_output("out3");
}

pub fn t_across_stream_ops<'a>(p: &P<'a>) {
    let tick = p.tick();
    let b = p.embedded_input::<i64>("in0").batch(&tick, nondet!(/** schedule */));
    b.clone().across_ticks(|s| s.enumerate()).all_ticks().embedded_output("out0");
    b.clone()
        .across_ticks(|s| {
            s.scan(
                q!(|| 0i64),
                q!(|acc, x| {
                    *acc += x;
                    Some(*acc)
                }),
            )
        })
        .all_ticks()
        .embedded_output("out1");
    b.clone().across_ticks(|s| s.unique()).all_ticks().embedded_output("out2");
    b.across_ticks(|s| s.max()).all_ticks().embedded_output("out3");
}

pub fn t_across_keyed<'a>(p: &P<'a>) {
    let tick = p.tick();
    let b = p
        .embedded_input::<(i64, i64)>("in0")
        .batch(&tick, nondet!(/** schedule */))
        .into_keyed();
    b.clone()
        .across_ticks(|s| s.enumerate().entries_partially_ordered(nondet!(/** observation: per-key order */)))
        .all_ticks()
        .embedded_output("out0");
    b.across_ticks(|s| s.fold(q!(|| 0i64), q!(|acc, v| *acc = *acc * 2 + v)))
        .entries()
        .all_ticks()
        .assume_ordering::<TotalOrder>(nondet!(/** observation: multiset per tick */))
        .embedded_output("out1");
}

// ---------------------------------------------------------------------------------------------
// C32 (cont.): unique() / keys() turn an AtLeastOnce stream into ExactlyOnce without a nondet!,
// at top level and inside an atomic region; the duplicate may arrive in a later tick
// ---------------------------------------------------------------------------------------------

pub fn x_unique_top<'a>(p: &P<'a>) {
    obs_bag(weak(p, "in0").unique(), "out0");
    // ordered, at-least-once: first occurrences in order
    p.embedded_input::<i64>("in1")
        .weaken_retries::<AtLeastOnce>()
        .unique()
        .embedded_output("out1");
}

pub fn x_unique_atomic_top<'a>(p: &P<'a>) {
    obs_bag(weak(p, "in0").atomic().unique().end_atomic(), "out0");
    p.embedded_input::<i64>("in1")
        .weaken_retries::<AtLeastOnce>()
        .atomic()
        .unique()
        .end_atomic()
        .embedded_output("out1");
}

pub fn x_keys_top<'a>(p: &P<'a>) {
    let ks = p
        .embedded_input::<(i64, i64)>("in0")
        .weaken_ordering::<NoOrder>()
        .weaken_retries::<AtLeastOnce>()
        .into_keyed();
    obs_bag(ks.clone().keys(), "out0");
    obs_bag(ks.atomic().keys().end_atomic(), "out1");
}

// ---------------------------------------------------------------------------------------------
// C33 (cont.): the promise is read from the collection's TYPE (KeyedSingletonBound::bound_kind())
// at staging time and travels with every observed entry as a code:
// 0 = Unbounded (nothing promised), 1 = MonotonicKeys, 2 = MonotonicValue, 3 = BoundedValue, 4 = Bounded
// ---------------------------------------------------------------------------------------------

pub fn obs_typed_keyed<'a, K: Clone, V: Clone, B: KeyedSingletonBound<ValueBound = Unbounded>>(
    s: KeyedSingleton<K, V, P<'a>, B>,
    name: &str,
) {
    use hydro_lang::compile::ir::KeyedSingletonBoundKind;
    let code: usize = match B::bound_kind() {
        KeyedSingletonBoundKind::Unbounded => 0,
        KeyedSingletonBoundKind::MonotonicKeys => 1,
        KeyedSingletonBoundKind::MonotonicValue => 2,
        KeyedSingletonBoundKind::BoundedValue => 3,
        KeyedSingletonBoundKind::Bounded => 4,
    };
    let tick = s.location().tick();
    s.snapshot(&tick, nondet!(/** terminal observation adapter: per-tick snapshot */))
        .entries()
        .map(q!(move |(k, v)| (code, k, v)))
        .all_ticks()
        .assume_ordering::<TotalOrder>(nondet!(/** terminal observation adapter: multiset per tick */))
        .embedded_output(name);
}

pub fn m_reduce_watermark<'a>(p: &P<'a>) {
    // per-window sums with watermark-based garbage collection (keys below the watermark are
    // dropped) and views derived from them: whatever bound their types carry must be truthful
    let tick = p.tick();
    let low_watermark = p
        .embedded_input::<i64>("in1")
        .batch(&tick, nondet!(/** watermark timing is the schedule */))
        .max();
    let sums = p
        .embedded_input::<(i64, i64)>("in0")
        .into_keyed()
        .reduce_watermark(low_watermark, q!(|acc, v| *acc += v));
    obs_typed_keyed(sums.clone(), "out0");
    obs_typed_keyed(sums.clone().map(q!(|s| s * 2)), "out1");
    obs_typed_keyed(sums.map_with_key(q!(|(k, s)| k * 100 + s)), "out2");
}

pub fn m_typed_folds<'a>(p: &P<'a>) {
    let ks = p.embedded_input::<(i64, i64)>("in0").into_keyed();
    let f = ks.clone().fold(q!(|| 0i64), q!(|acc, v| *acc = *acc * 2 + v));
    obs_typed_keyed(f.clone(), "out0");
    obs_typed_keyed(f.map(q!(|v| v - 1)), "out1");
    let c = ks.clone().value_counts();
    obs_typed_keyed(c.clone(), "out2");
    obs_typed_keyed(c.map_with_key(q!(|(k, n)| k + n as i64)), "out3");
    obs_typed_keyed(ks.reduce(q!(|acc, v| *acc = *acc * 3 + v)), "out4");
}

// ---------------------------------------------------------------------------------------------
// C41 (cont.): by_ref() / by_mut() handles on the same collection in every order
// ---------------------------------------------------------------------------------------------

fn total<'a>(p: &P<'a>) -> Singleton<i64, P<'a>, Bounded> {
    p.source_iter(q!(0..5i64)).fold(q!(|| 0i64), q!(|acc: &mut i64, x| *acc += x))
}

pub fn r_ref_only<'a>(p: &P<'a>) {
    let t = total(p);
    let r = t.by_ref();
    p.source_iter(q!(1..=3i64)).map(q!(|x| x + *r)).embedded_output("out0");
    p.source_iter(q!(4..=5i64)).filter(q!(|x| *x > *r)).embedded_output("out1");
    t.into_stream().embedded_output("out2");
}

pub fn r_mut_only<'a>(p: &P<'a>) {
    let t = total(p);
    let m = t.by_mut();
    p.source_iter(q!(1..=3i64))
        .map(q!(|x| {
            *m += x;
            *m
        }))
        .embedded_output("out0");
    t.into_stream().embedded_output("out1");
}

pub fn r_ref_then_mut<'a>(p: &P<'a>) {
    let t = total(p);
    let r = t.by_ref();
    p.source_iter(q!(1..=3i64)).map(q!(|x| x + *r)).embedded_output("out0");
    let m = t.by_mut();
    p.source_iter(q!(1..=3i64))
        .map(q!(|x| {
            *m += x;
            *m
        }))
        .embedded_output("out1");
    t.into_stream().embedded_output("out2");
}

pub fn r_mut_then_ref<'a>(p: &P<'a>) {
    let t = total(p);
    let m = t.by_mut();
    p.source_iter(q!(1..=3i64))
        .map(q!(|x| {
            *m += x;
            *m
        }))
        .embedded_output("out0");
    let r = t.by_ref();
    p.source_iter(q!(1..=3i64)).map(q!(|x| x + *r)).embedded_output("out1");
    t.into_stream().embedded_output("out2");
}

pub fn r_ref_mut_ref<'a>(p: &P<'a>) {
    let t = total(p);
    let r1 = t.by_ref();
    p.source_iter(q!(1..=2i64)).map(q!(|x| x + *r1)).embedded_output("out0");
    let m = t.by_mut();
    p.source_iter(q!(1..=2i64))
        .inspect(q!(|x| {
            *m += *x;
        }))
        .embedded_output("out1");
    let r2 = t.by_ref();
    p.source_iter(q!(1..=2i64)).map(q!(|x| x * *r2)).embedded_output("out2");
    t.into_stream().embedded_output("out3");
}

pub fn r_two_collections<'a>(p: &P<'a>) {
    let a = total(p);
    let b = p.source_iter(q!(vec![7i64, 8])).fold(q!(|| 1i64), q!(|acc: &mut i64, x| *acc *= x));
    let ra = a.by_ref();
    let mb = b.by_mut();
    p.source_iter(q!(1..=3i64))
        .map(q!(|x| {
            *mb += *ra + x;
            *mb
        }))
        .embedded_output("out0");
    let ma = a.by_mut();
    let rb = b.by_ref();
    p.source_iter(q!(1..=3i64))
        .map(q!(|x| {
            *ma += *rb;
            x + *ma
        }))
        .embedded_output("out1");
    a.into_stream().embedded_output("out2");
    b.into_stream().embedded_output("out3");
}

pub fn r_tick_ref_mut<'a>(p: &P<'a>) {
    // the same inside a tick: a per-tick singleton read, then mutated, then read again
    let tick = p.tick();
    let batch = p.embedded_input::<i64>("in0").batch(&tick, nondet!(/** schedule */));
    let t = batch.clone().fold(q!(|| 0i64), q!(|acc: &mut i64, x| *acc += x));
    let r = t.by_ref();
    batch.clone().map(q!(|x| x + *r)).all_ticks().embedded_output("out0");
    let m = t.by_mut();
    batch
        .clone()
        .map(q!(|x| {
            *m += 1;
            x + *m
        }))
        .all_ticks()
        .embedded_output("out1");
    let r2 = t.by_ref();
    batch.map(q!(|x| x - *r2)).all_ticks().embedded_output("out2");
    t.all_ticks().embedded_output("out3");
}
