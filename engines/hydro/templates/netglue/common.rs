// shared helpers of the network glue (included at the top of every netglue file)
use std::cell::RefCell;
use std::rc::Rc;

use bytes::{Bytes, BytesMut};
use hydro_lang::location::MembershipEvent;
use hydro_lang::location::member_id::TaglessMemberId;
use serde_json::{Value, json};
use {PC}::net::Payload;

use crate::support::*;

fn members_of(run: &Run) -> Vec<u32> {
    run.sing
        .first()
        .and_then(|c| c.get("members"))
        .and_then(|m| m.as_array())
        .map(|a| a.iter().map(|x| x.as_u64().unwrap() as u32).collect())
        .unwrap_or_default()
}

fn msgs<T: serde::de::DeserializeOwned>(run: &Run) -> Vec<T> {
    run.input::<T>(0).into_iter().flatten().collect()
}

async fn ticks<T: dfir_rs::scheduled::context::TickClosure>(flow: &mut dfir_rs::scheduled::context::Dfir<T>, n: usize) {
    for _ in 0..n {
        flow.run_tick().await;
    }
}

fn one_shot<T>(items: Vec<T>) -> Scripted<T> {
    let (s, q) = Scripted::new();
    q.borrow_mut().extend(items);
    s
}

fn wire_log(log: &Log, name: &'static str, v: Value) {
    log.items.borrow_mut().push((0, name, v));
}
