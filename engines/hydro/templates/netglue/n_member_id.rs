// MemberId <-> TaglessMemberId round trips for the raw ids given as input 0 (no flow involved)
pub fn run(run: &Run) -> Value {
    use hydro_lang::location::MemberId;
    let log = Log::new();
    for raw in msgs::<u32>(run) {
        let x: MemberId<()> = MemberId::from_raw_id(raw);
        let t = x.clone().into_tagless();
        let y: MemberId<()> = MemberId::from_tagless(t.clone());
        let t2 = TaglessMemberId::from_raw_id(raw);
        let ser = bincode::serialize(&x).unwrap();
        let z: MemberId<()> = bincode::deserialize(&ser).unwrap();
        let tser = bincode::serialize(&t).unwrap();
        let tz: TaglessMemberId = bincode::deserialize(&tser).unwrap();
        wire_log(
            &log,
            "out0",
            json!({
                "raw": raw,
                "tagless_round_trip_eq": x == y,
                "raw_after_round_trip": y.get_raw_id(),
                "tagless_raw": t.get_raw_id(),
                "tagless_from_raw_eq": t == t2,
                "bincode_eq": x == z,
                "tagless_bincode_eq": t == tz,
                "display": format!("{}", t),
            }),
        );
    }
    finish(run, &log, 1, true)
}
