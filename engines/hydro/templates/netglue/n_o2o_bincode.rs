pub fn run(run: &Run) -> Value {
    let log = Log::new();
    let wire: Rc<RefCell<Vec<Bytes>>> = Rc::new(RefCell::new(vec![]));
    {
        let w = wire.clone();
        let mut net_out = g::n_o2o_bincode_src::EmbeddedNetworkOut { ch: move |b: Bytes| w.borrow_mut().push(b) };
        let mut flow = g::n_o2o_bincode_src(one_shot(msgs::<Payload>(run)), &mut net_out);
        block_on_local(ticks(&mut flow, 3));
    }
    let frames: Vec<Result<BytesMut, std::io::Error>> = wire.borrow().iter().map(|b| Ok(BytesMut::from(b.as_ref()))).collect();
    wire_log(&log, "frames", json!(frames.len()));
    {
        let net_in = g::n_o2o_bincode_dst::EmbeddedNetworkIn { ch: one_shot(frames) };
        let mut outputs = g::n_o2o_bincode_dst::EmbeddedOutputs { out0: log.sink::<Payload>("out0") };
        let mut flow = g::n_o2o_bincode_dst(&mut outputs, net_in);
        block_on_local(ticks(&mut flow, 3));
    }
    finish(run, &log, 6, true)
}
