pub fn run(run: &Run) -> Value {
    let log = Log::new();
    let members = members_of(run);
    let wire: Rc<RefCell<Vec<(TaglessMemberId, Bytes)>>> = Rc::new(RefCell::new(vec![]));
    {
        let w = wire.clone();
        let membership = g::n_broadcast_bincode_src::EmbeddedMembershipStreams {
            n_broadcast_bincode_dst: one_shot(members.iter().map(|m| (TaglessMemberId::from_raw_id(*m), MembershipEvent::Joined)).collect()),
        };
        // the membership is delivered one tick before the data so that every payload sees all members
        let (data, q) = Scripted::<Payload>::new();
        let mut net_out = g::n_broadcast_bincode_src::EmbeddedNetworkOut { ch: move |b: (TaglessMemberId, Bytes)| w.borrow_mut().push(b) };
        let mut flow = g::n_broadcast_bincode_src(membership, data, &mut net_out);
        block_on_local(async {
            flow.run_tick().await;
            q.borrow_mut().extend(msgs::<Payload>(run));
            ticks(&mut flow, 3).await;
        });
    }
    for (tag, _) in wire.borrow().iter() {
        wire_log(&log, "wire_tags", json!(tag.get_raw_id()));
    }
    for m in &members {
        let frames: Vec<Result<BytesMut, std::io::Error>> = wire
            .borrow()
            .iter()
            .filter(|(tag, _)| tag.get_raw_id() == *m)
            .map(|(_, b)| Ok(BytesMut::from(b.as_ref())))
            .collect();
        let me = TaglessMemberId::from_raw_id(*m);
        let mid = *m;
        let items = log.items.clone();
        let net_in = g::n_broadcast_bincode_dst::EmbeddedNetworkIn { ch: one_shot(frames) };
        let mut outputs = g::n_broadcast_bincode_dst::EmbeddedOutputs {
            out0: move |p: Payload| items.borrow_mut().push((0, "out0", json!([mid, p]))),
        };
        let mut flow = g::n_broadcast_bincode_dst(&me, &mut outputs, net_in);
        block_on_local(ticks(&mut flow, 3));
    }
    finish(run, &log, 7, true)
}
