pub fn run(run: &Run) -> Value {
    let log = Log::new();
    let wire: Rc<RefCell<Vec<(TaglessMemberId, Payload)>>> = Rc::new(RefCell::new(vec![]));
    {
        let w = wire.clone();
        let mut net_out = g::n_demux_embedded_src::EmbeddedNetworkOut { ch: move |b: (TaglessMemberId, Payload)| w.borrow_mut().push(b) };
        let mut flow = g::n_demux_embedded_src(one_shot(msgs::<(u32, Payload)>(run)), &mut net_out);
        block_on_local(ticks(&mut flow, 3));
    }
    let members = members_of(run);
    for (tag, _) in wire.borrow().iter() {
        wire_log(&log, "wire_tags", json!(tag.get_raw_id()));
    }
    for m in &members {
        let frames: Vec<Payload> = wire
            .borrow()
            .iter()
            .filter(|(tag, _)| tag.get_raw_id() == *m)
            .map(|(_, b)| b.clone())
            .collect();
        let me = TaglessMemberId::from_raw_id(*m);
        let mid = *m;
        let items = log.items.clone();
        let net_in = g::n_demux_embedded_dst::EmbeddedNetworkIn { ch: one_shot(frames) };
        let mut outputs = g::n_demux_embedded_dst::EmbeddedOutputs {
            out0: move |p: Payload| items.borrow_mut().push((0, "out0", json!([mid, p]))),
        };
        let mut flow = g::n_demux_embedded_dst(&me, &mut outputs, net_in);
        block_on_local(ticks(&mut flow, 3));
    }
    finish(run, &log, 6, true)
}
