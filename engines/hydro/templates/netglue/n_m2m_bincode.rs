// input 0: list of (destination raw id, payload); config: members (destinations), senders.
// Every sender sends the whole list; every destination must see (sender, payload) for exactly the
// payloads addressed to it.
pub fn run(run: &Run) -> Value {
    let log = Log::new();
    let all = msgs::<(u32, Payload)>(run);
    let members = members_of(run);
    let senders: Vec<u32> = run.sing[0]["senders"].as_array().unwrap().iter().map(|x| x.as_u64().unwrap() as u32).collect();
    let mut frames: Vec<(u32, TaglessMemberId, Bytes)> = vec![]; // (sender, destination tag, bytes)
    for s in &senders {
        let wire: Rc<RefCell<Vec<(TaglessMemberId, Bytes)>>> = Rc::new(RefCell::new(vec![]));
        let me = TaglessMemberId::from_raw_id(*s);
        {
            let w = wire.clone();
            let mut net_out = g::n_m2m_bincode_src::EmbeddedNetworkOut { ch: move |b: (TaglessMemberId, Bytes)| w.borrow_mut().push(b) };
            let mut flow = g::n_m2m_bincode_src(&me, one_shot(all.clone()), &mut net_out);
            block_on_local(ticks(&mut flow, 3));
        }
        for (tag, b) in wire.borrow().iter() {
            frames.push((*s, tag.clone(), b.clone()));
        }
    }
    for (_, tag, _) in &frames {
        wire_log(&log, "wire_tags", json!(tag.get_raw_id()));
    }
    for m in &members {
        let mine: Vec<Result<(TaglessMemberId, BytesMut), std::io::Error>> = frames
            .iter()
            .filter(|(_, tag, _)| tag.get_raw_id() == *m)
            .map(|(s, _, b)| Ok((TaglessMemberId::from_raw_id(*s), BytesMut::from(b.as_ref()))))
            .collect();
        let me = TaglessMemberId::from_raw_id(*m);
        let mid = *m;
        let items = log.items.clone();
        let net_in = g::n_m2m_bincode_dst::EmbeddedNetworkIn { ch: one_shot(mine) };
        let mut outputs = g::n_m2m_bincode_dst::EmbeddedOutputs {
            out0: move |p: (u32, Payload)| items.borrow_mut().push((0, "out0", json!([mid, p.0, p.1]))),
        };
        let mut flow = g::n_m2m_bincode_dst(&me, &mut outputs, net_in);
        block_on_local(ticks(&mut flow, 3));
    }
    finish(run, &log, 6, true)
}
