pub fn run(run: &Run) -> Value {
    let log = Log::new();
    let all = msgs::<(u32, Payload)>(run);
    let members = members_of(run);
    let mut tagged: Vec<(TaglessMemberId, Payload)> = vec![];
    for m in &members {
        let wire: Rc<RefCell<Vec<Payload>>> = Rc::new(RefCell::new(vec![]));
        let mine: Vec<Payload> = all.iter().filter(|(s, _)| s == m).map(|(_, p)| p.clone()).collect();
        let me = TaglessMemberId::from_raw_id(*m);
        {
            let w = wire.clone();
            let mut net_out = g::n_m2o_embedded_src::EmbeddedNetworkOut { ch: move |b: Payload| w.borrow_mut().push(b) };
            let mut flow = g::n_m2o_embedded_src(&me, one_shot(mine), &mut net_out);
            block_on_local(ticks(&mut flow, 3));
        }
        for b in wire.borrow().iter() {
            tagged.push((me.clone(), b.clone()));
        }
    }
    wire_log(&log, "frames", json!(tagged.len()));
    {
        let net_in = g::n_m2o_embedded_dst::EmbeddedNetworkIn { ch: one_shot(tagged) };
        let mut outputs = g::n_m2o_embedded_dst::EmbeddedOutputs { out0: log.sink::<(u32, Payload)>("out0") };
        let mut flow = g::n_m2o_embedded_dst(&mut outputs, net_in);
        block_on_local(ticks(&mut flow, 3));
    }
    finish(run, &log, 6, true)
}
