// Network topologies for C35 (serialization round trip and member addressing through the
// generated send / receive code). Compiled once with the embedded backend; the harness is the
// network: it takes what the sender's generated sink closure emits and feeds the receiver's
// generated source stream.
use hydro_lang::live_collections::stream::{NoOrder, TotalOrder};
use hydro_lang::location::MemberId;
use hydro_lang::prelude::*;
use serde::{Deserialize, Serialize};

#[derive(Serialize, Deserialize, Clone, Debug, PartialEq, Eq, Hash)]
pub enum Shape {
    Unit,
    N(i64),
    S(String),
    V(Vec<u32>),
    Pair(Box<Shape>, Option<String>),
    Rec { a: u8, b: Vec<Option<i16>> },
}

#[derive(Serialize, Deserialize, Clone, Debug, PartialEq, Eq, Hash)]
pub struct Payload {
    pub id: u64,
    pub name: String,
    pub tags: Vec<(i8, Option<String>)>,
    pub shape: Shape,
    pub unit: (),
    pub flag: bool,
}

pub struct NSrc {}
pub struct NDst {}
pub struct CSrc {}
pub struct CDst {}

pub fn n_o2o_bincode<'a>(src: &Process<'a, NSrc>, dst: &Process<'a, NDst>) {
    src.embedded_input::<Payload>("in0")
        .send(dst, TCP.fail_stop().bincode().name("ch"))
        .embedded_output("out0");
}

pub fn n_o2o_embedded<'a>(src: &Process<'a, NSrc>, dst: &Process<'a, NDst>) {
    src.embedded_input::<Payload>("in0")
        .send(dst, TCP.fail_stop().embedded().name("ch"))
        .embedded_output("out0");
}

pub fn n_demux_bincode<'a>(src: &Process<'a, NSrc>, dst: &Cluster<'a, CDst>) {
    src.embedded_input::<(u32, Payload)>("in0")
        .map(q!(|(id, p)| (MemberId::<CDst>::from_raw_id(id), p)))
        .demux(dst, TCP.fail_stop().bincode().name("ch"))
        .embedded_output("out0");
}

pub fn n_demux_embedded<'a>(src: &Process<'a, NSrc>, dst: &Cluster<'a, CDst>) {
    src.embedded_input::<(u32, Payload)>("in0")
        .map(q!(|(id, p)| (MemberId::<CDst>::from_raw_id(id), p)))
        .demux(dst, TCP.fail_stop().embedded().name("ch"))
        .embedded_output("out0");
}

pub fn n_broadcast_bincode<'a>(src: &Process<'a, NSrc>, dst: &Cluster<'a, CDst>) {
    src.embedded_input::<Payload>("in0")
        .broadcast(dst, TCP.fail_stop().bincode().name("ch"), nondet!(/** membership is fed before the data */))
        .embedded_output("out0");
}

pub fn n_m2o_bincode<'a>(src: &Cluster<'a, CSrc>, dst: &Process<'a, NDst>) {
    src.embedded_input::<Payload>("in0")
        .send(dst, TCP.fail_stop().bincode().name("ch"))
        .entries()
        .map(q!(|(m, p)| (m.get_raw_id(), p)))
        .assume_ordering::<TotalOrder>(nondet!(/** observation: multiset */))
        .embedded_output("out0");
}

pub fn n_m2o_embedded<'a>(src: &Cluster<'a, CSrc>, dst: &Process<'a, NDst>) {
    src.embedded_input::<Payload>("in0")
        .send(dst, TCP.fail_stop().embedded().name("ch"))
        .entries()
        .map(q!(|(m, p)| (m.get_raw_id(), p)))
        .assume_ordering::<TotalOrder>(nondet!(/** observation: multiset */))
        .embedded_output("out0");
}

pub fn n_m2m_bincode<'a>(src: &Cluster<'a, CSrc>, dst: &Cluster<'a, CDst>) {
    src.embedded_input::<(u32, Payload)>("in0")
        .map(q!(|(id, p)| (MemberId::<CDst>::from_raw_id(id), p)))
        .demux(dst, TCP.fail_stop().bincode().name("ch"))
        .entries()
        .map(q!(|(m, p)| (m.get_raw_id(), p)))
        .assume_ordering::<TotalOrder>(nondet!(/** observation: multiset */))
        .embedded_output("out0");
}
