// Network topologies for C35 (filled in by the engine; see net module of the host).
