// Runner support (copied verbatim into every generated `vh_run` crate by the `hydro` engine).
// The harness owns the schedule: a scripted input stream yields exactly the items the schedule
// releases for the current tick and is `Pending` otherwise, so the tick partition is exactly what
// the generated `Dfir` observes.
use std::cell::{Cell, RefCell};
use std::collections::VecDeque;
use std::pin::Pin;
use std::rc::Rc;
use std::task::{Context, Poll};

use dfir_rs::scheduled::context::{Dfir, TickClosure};
use serde_json::{Value, json};

pub struct Scripted<T>(pub Rc<RefCell<VecDeque<T>>>);

impl<T> Scripted<T> {
    pub fn new() -> (Self, Rc<RefCell<VecDeque<T>>>) {
        let q = Rc::new(RefCell::new(VecDeque::new()));
        (Scripted(q.clone()), q)
    }
}

impl<T> Unpin for Scripted<T> {}

impl<T> futures::Stream for Scripted<T> {
    type Item = T;
    fn poll_next(self: Pin<&mut Self>, _cx: &mut Context<'_>) -> Poll<Option<T>> {
        match self.0.borrow_mut().pop_front() {
            Some(x) => Poll::Ready(Some(x)),
            None => Poll::Pending,
        }
    }
}

/// One requested run: which program, which schedule.
#[derive(serde::Deserialize, Clone)]
pub struct Run {
    pub p: String,
    pub id: u64,
    /// inputs[i][t] = items of input i released before tick t
    #[serde(default)]
    pub inputs: Vec<Vec<Vec<Value>>>,
    /// values of the embedded singleton inputs
    #[serde(default)]
    pub sing: Vec<Value>,
    /// trailing empty ticks: at least `min_extra`, then until `quiet` outputs have been silent
    /// for two consecutive ticks, at most `max_extra`
    #[serde(default)]
    pub min_extra: usize,
    #[serde(default)]
    pub max_extra: usize,
    /// outputs that must be silent for the run to count as quiescent
    #[serde(default)]
    pub quiet: Vec<String>,
    /// free-form extra parameters for special glue (network harness)
    #[serde(default)]
    pub extra: Value,
}

impl Run {
    pub fn n_ticks(&self) -> usize {
        self.inputs.iter().map(|i| i.len()).max().unwrap_or(0)
    }
    pub fn input<T: serde::de::DeserializeOwned>(&self, i: usize) -> Vec<Vec<T>> {
        self.inputs
            .get(i)
            .map(|ticks| {
                ticks
                    .iter()
                    .map(|items| {
                        items
                            .iter()
                            .map(|v| serde_json::from_value(v.clone()).expect("input item type"))
                            .collect()
                    })
                    .collect()
            })
            .unwrap_or_default()
    }
    pub fn sing<T: serde::de::DeserializeOwned>(&self, i: usize) -> T {
        serde_json::from_value(self.sing[i].clone()).expect("singleton input type")
    }
}

#[derive(Clone)]
pub struct Log {
    pub tick: Rc<Cell<usize>>,
    pub items: Rc<RefCell<Vec<(usize, &'static str, Value)>>>,
}

impl Log {
    pub fn new() -> Log {
        Log {
            tick: Rc::new(Cell::new(0)),
            items: Rc::new(RefCell::new(vec![])),
        }
    }
    pub fn sink<T: serde::Serialize>(&self, name: &'static str) -> impl FnMut(T) + use<T> {
        let tick = self.tick.clone();
        let items = self.items.clone();
        move |v: T| {
            let j = serde_json::to_value(&v).expect("output item serialises");
            items.borrow_mut().push((tick.get(), name, j));
        }
    }
}

pub struct Feed<T> {
    pub q: Rc<RefCell<VecDeque<T>>>,
    pub ticks: Vec<Vec<T>>,
}

pub trait Feeder {
    fn release(&mut self, tick: usize);
}

impl<T> Feeder for Feed<T> {
    fn release(&mut self, tick: usize) {
        if tick < self.ticks.len() {
            let items = std::mem::take(&mut self.ticks[tick]);
            self.q.borrow_mut().extend(items);
        }
    }
}

pub fn feed<T: serde::de::DeserializeOwned>(run: &Run, i: usize) -> (Scripted<T>, Box<dyn Feeder>)
where
    T: 'static,
{
    let (s, q) = Scripted::new();
    let f = Feed {
        q,
        ticks: run.input::<T>(i),
    };
    (s, Box::new(f))
}

/// Drive one flow through the schedule; returns (ticks run, quiescent).
pub async fn drive<T: TickClosure>(
    flow: &mut Dfir<T>,
    run: &Run,
    log: &Log,
    feeders: &mut [Box<dyn Feeder>],
) -> (usize, bool) {
    let n = run.n_ticks();
    let mut t = 0usize;
    let mut silent = 0usize;
    let mut extra = 0usize;
    loop {
        let in_input = t < n;
        if !in_input {
            if extra >= run.max_extra {
                break;
            }
            if extra >= run.min_extra && silent >= 2 {
                break;
            }
        }
        log.tick.set(t);
        for f in feeders.iter_mut() {
            f.release(t);
        }
        let before = log.items.borrow().len();
        flow.run_tick().await;
        let noisy = log.items.borrow()[before..]
            .iter()
            .any(|(_, name, _)| run.quiet.iter().any(|q| q == name));
        if noisy || in_input {
            silent = 0;
        } else {
            silent += 1;
        }
        if !in_input {
            extra += 1;
        }
        t += 1;
    }
    (t, silent >= 2 || run.quiet.is_empty())
}

pub fn finish(run: &Run, log: &Log, ticks: usize, quiescent: bool) -> Value {
    let mut outs = serde_json::Map::new();
    for (t, name, v) in log.items.borrow().iter() {
        outs.entry(name.to_string())
            .or_insert_with(|| json!([]))
            .as_array_mut()
            .unwrap()
            .push(json!([t, v]));
    }
    json!({"p": run.p, "id": run.id, "ticks": ticks, "quiescent": quiescent, "outs": outs})
}

pub fn block_on_local<F: std::future::Future>(f: F) -> F::Output {
    let rt = tokio::runtime::Builder::new_current_thread()
        .enable_all()
        .build()
        .unwrap();
    let local = tokio::task::LocalSet::new();
    rt.block_on(local.run_until(f))
}

pub fn panic_text(p: Box<dyn std::any::Any + Send>) -> String {
    if let Some(s) = p.downcast_ref::<&str>() {
        s.to_string()
    } else if let Some(s) = p.downcast_ref::<String>() {
        s.clone()
    } else {
        "<non-string panic>".to_string()
    }
}

pub fn main_loop(dispatch: &dyn Fn(&Run) -> Option<Value>) {
    use std::io::Write;
    let path = std::env::args().nth(1).expect("usage: runner RUNS.json");
    let txt = std::fs::read_to_string(&path).expect("read runs file");
    let runs: Vec<Run> = serde_json::from_str(&txt).expect("runs file is JSON");
    std::panic::set_hook(Box::new(|_| {}));
    let out = std::io::stdout();
    let mut out = std::io::BufWriter::new(out.lock());
    for run in &runs {
        let r = std::panic::catch_unwind(std::panic::AssertUnwindSafe(|| dispatch(run)));
        let line = match r {
            Ok(Some(v)) => v,
            Ok(None) => json!({"p": run.p, "id": run.id, "error": "unknown program"}),
            Err(p) => json!({"p": run.p, "id": run.id, "panic": panic_text(p)}),
        };
        writeln!(out, "{}", line).unwrap();
    }
    out.flush().unwrap();
}
