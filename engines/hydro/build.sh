#!/usr/bin/env bash
# Two-stage build of engine `hydro`: (1) the host binary (generator, schedule enumerator, oracles,
# evidence); (2) warm-up of the shared generated-crate target ($VERIF_ROOT/target/hydro-gen): the
# corpus batch (stageleft crate + runner whose build.rs calls generate_embedded), so that
# hydro_lang[build] / dfir_rs are compiled once at set-up time and later checks only pay for
# their own (content-cached) batches. Everything is offline and goes through $VERIF_REPO.
set -euo pipefail
cd "$(dirname "$0")"
cargo build --release --offline
bin="${CARGO_TARGET_DIR:-$(pwd)/../../target/hydro}/release/hydro"
"$bin" --warm
