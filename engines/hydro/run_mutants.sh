#!/usr/bin/env bash
# usage: run_mutants.sh <scratch-name> <mutant-diff>... ; runs `check <ID>` (ID = prefix of the diff name)
# in the scratch copy for each mutant and prints the verdict. Never touches /repo.
set -u
name=$1; shift
root=/tmp/vp-scratch-$name
for m in "$@"; do
  base=$(basename "$m" .diff)
  id=${base%%-*}
  if ! git -C "$root/repo" apply "$m"; then echo "MUTANT $base: patch does not apply"; continue; fi
  t0=$(date +%s)
  out=$("$root/check" "$id" --tier quick 2>&1)
  rc=$?
  t1=$(date +%s)
  git -C "$root/repo" apply -R "$m"
  echo "MUTANT $base: check $id exit=$rc ($((t1-t0))s)"
  echo "$out" | grep -E "^(VIOLATION|  sub_check|FAIL|PASS|INCONCLUSIVE|BUILD-FAILED|KNOWN)" | head -8
done
