//! Cases, the result store, batch preparation and the generic case driver (record / minimise /
//! report / replay).
use std::collections::{BTreeMap, BTreeSet, HashMap};

use serde::{Deserialize, Serialize};
use serde_json::Value;
use vcommon::{Ctx, Fail, Obs};

use crate::batch::{self, BuildReport, Failure, RunReq, Special};
use crate::spec::*;

#[derive(Clone, Debug, Serialize, Deserialize)]
pub struct Case {
    pub prog: ProgSpec,
    /// schedule 0 is the reference presentation (single tick, original order)
    pub schedules: Vec<Schedule>,
    /// how schedule i was derived (for messages / class labels)
    #[serde(default)]
    pub notes: Vec<String>,
}

pub enum Issue {
    /// the program is not available in the runner (stage failure recorded in the build report)
    NotBuilt(Failure),
    Infra(String),
}

fn sched_key(s: &Schedule) -> u64 {
    vcommon::fnv(&serde_json::to_string(s).unwrap())
}

#[derive(Default)]
pub struct Engine {
    pub reports: BTreeMap<String, BuildReport>,
    prog_slot: HashMap<String, String>,
    store: HashMap<(String, u64), RunResult>,
    pub corpus_specs: Vec<ProgSpec>,
    pub specials: Vec<Special>,
    pub run_secs: f64,
    pub runs: u64,
}

impl Engine {
    pub fn new(corpus_specs: Vec<ProgSpec>) -> Engine {
        Engine { corpus_specs, ..Default::default() }
    }

    fn req_for(case_prog: &ProgSpec, id: u64, s: &Schedule) -> RunReq {
        let mut r = RunReq::new(&case_prog.name, id, s);
        if case_prog.traits.tick_program {
            r.min_extra = 3;
            r.max_extra = 3;
            r.quiet = vec![];
        } else {
            r.min_extra = 3;
            r.max_extra = 14;
            r.quiet = case_prog
                .outputs
                .iter()
                .filter(|o| matches!(o.kind, OutKind::Seq | OutKind::Bag | OutKind::KeyedSeq))
                .map(|o| o.name.clone())
                .collect();
        }
        r
    }

    /// Build `slot` with the given programs (no-op if this slot was already built in this process
    /// with a superset of them).
    pub fn build_slot(&mut self, slot: &str, progs: &[ProgSpec]) {
        let specials = if slot == "corpus" { self.specials.clone() } else { vec![] };
        let rep = batch::build(slot, progs, &specials);
        for p in progs {
            self.prog_slot.insert(p.name.clone(), slot.to_string());
        }
        for s in &specials {
            self.prog_slot.insert(s.name.clone(), slot.to_string());
        }
        self.reports.insert(slot.to_string(), rep);
    }

    /// Make sure every program of `cases` is built and every schedule has been run.
    pub fn prepare(&mut self, cases: &[Case], gen_slot: &str) -> Result<(), String> {
        // which programs?
        let mut need_corpus = false;
        let mut gen: BTreeMap<String, ProgSpec> = BTreeMap::new();
        for c in cases {
            if self.prog_slot.contains_key(&c.prog.name) {
                continue;
            }
            if c.prog.is_corpus() || self.corpus_specs.iter().any(|p| p.name == c.prog.name) {
                need_corpus = true;
            } else {
                gen.insert(c.prog.name.clone(), c.prog.clone());
            }
        }
        if need_corpus {
            let specs = self.corpus_specs.clone();
            self.build_slot("corpus", &specs);
        }
        if !gen.is_empty() {
            let progs: Vec<ProgSpec> = gen.into_values().collect();
            self.build_slot(gen_slot, &progs);
        }
        for (slot, rep) in &self.reports {
            if let Some(i) = &rep.infra {
                return Err(format!("slot {slot}: {i}"));
            }
        }
        // run what is missing, per slot
        let mut per_slot: BTreeMap<String, Vec<RunReq>> = BTreeMap::new();
        let mut keys: HashMap<u64, (String, u64)> = HashMap::new();
        let mut id = 0u64;
        let mut seen: BTreeSet<(String, u64)> = BTreeSet::new();
        for c in cases {
            let Some(slot) = self.prog_slot.get(&c.prog.name).cloned() else { continue };
            let rep = &self.reports[&slot];
            if !rep.ok.contains(&c.prog.name) {
                continue;
            }
            for s in &c.schedules {
                let k = (c.prog.name.clone(), sched_key(s));
                if self.store.contains_key(&k) || !seen.insert(k.clone()) {
                    continue;
                }
                id += 1;
                keys.insert(id, k);
                per_slot.entry(slot.clone()).or_default().push(Self::req_for(&c.prog, id, s));
            }
        }
        for (slot, reqs) in per_slot {
            let runner = self.reports[&slot].runner.clone().ok_or("no runner")?;
            let t0 = std::time::Instant::now();
            let timeout = 120 + reqs.len() as u64 / 20;
            let res = batch::run(&slot, &runner, &reqs, timeout)?;
            self.run_secs += t0.elapsed().as_secs_f64();
            self.runs += reqs.len() as u64;
            for ((_p, rid), rr) in res {
                if let Some(k) = keys.get(&rid) {
                    self.store.insert(k.clone(), rr);
                }
            }
        }
        Ok(())
    }

    pub fn failure_of(&self, prog: &str) -> Option<Failure> {
        let slot = self.prog_slot.get(prog)?;
        self.reports.get(slot)?.failed.get(prog).cloned()
    }

    /// Results of all schedules of a case (running / building on demand, e.g. in replay mode).
    pub fn results(&mut self, case: &Case) -> Result<Vec<RunResult>, Issue> {
        let missing = !self.prog_slot.contains_key(&case.prog.name)
            || case
                .schedules
                .iter()
                .any(|s| !self.store.contains_key(&(case.prog.name.clone(), sched_key(s))));
        if missing {
            if let Some(f) = self.failure_of(&case.prog.name) {
                return Err(Issue::NotBuilt(f));
            }
            self.prepare(std::slice::from_ref(case), "replay").map_err(Issue::Infra)?;
        }
        if let Some(f) = self.failure_of(&case.prog.name) {
            return Err(Issue::NotBuilt(f));
        }
        let mut out = vec![];
        for s in &case.schedules {
            match self.store.get(&(case.prog.name.clone(), sched_key(s))) {
                Some(r) => out.push(r.clone()),
                None => return Err(Issue::Infra(format!("no result for a schedule of {}", case.prog.name))),
            }
        }
        Ok(out)
    }
}

pub type Oracle<'a> = dyn Fn(&Case, &[RunResult], &mut Obs) -> Result<(), Fail> + 'a;

/// Shrink a failing case: keep only the schedules needed, then drop input items while the same
/// signature keeps failing. Cheap: only the runner is re-executed, nothing is recompiled.
pub fn minimise(eng: &mut Engine, case: &Case, sig: &str, oracle: &Oracle<'_>) -> Case {
    let fails = |eng: &mut Engine, c: &Case| -> bool {
        match eng.results(c) {
            Ok(res) => {
                let mut obs = Obs::default();
                matches!(oracle(c, &res, &mut obs), Err(f) if f.sig == sig)
            }
            Err(_) => false,
        }
    };
    let mut best = case.clone();
    // 1. schedules: reference + one other
    if best.schedules.len() > 2 {
        for i in 1..best.schedules.len() {
            let mut c = best.clone();
            c.schedules = vec![best.schedules[0].clone(), best.schedules[i].clone()];
            c.notes = if best.notes.len() == best.schedules.len() {
                vec![best.notes[0].clone(), best.notes[i].clone()]
            } else {
                vec![]
            };
            if fails(eng, &c) {
                best = c;
                break;
            }
        }
    }
    // 2. drop items (same item removed from every schedule: identified by occurrence index in the
    //    flattened input of schedule 0; only valid when all schedules are partitions of the same
    //    sequence, which we check)
    let same_flat = |c: &Case| -> bool {
        let n_in = c.schedules[0].inputs.len();
        (0..n_in).all(|i| {
            let f0 = c.schedules[0].flat(i);
            c.schedules.iter().all(|s| s.flat(i) == f0)
        })
    };
    if same_flat(&best) {
        let mut progress = true;
        let mut budget = 60;
        while progress && budget > 0 {
            progress = false;
            let n_in = best.schedules[0].inputs.len();
            'outer: for i in 0..n_in {
                let len = best.schedules[0].flat(i).len();
                for j in 0..len {
                    budget -= 1;
                    if budget == 0 {
                        break 'outer;
                    }
                    let mut c = best.clone();
                    for s in c.schedules.iter_mut() {
                        // remove j-th item of input i
                        let mut seen = 0;
                        for tick in s.inputs[i].iter_mut() {
                            if j < seen + tick.len() {
                                tick.remove(j - seen);
                                break;
                            }
                            seen += tick.len();
                        }
                    }
                    if fails(eng, &c) {
                        best = c;
                        progress = true;
                        continue 'outer;
                    }
                }
            }
        }
    }
    best
}

/// Drive a list of cases through an oracle: prefetch, evaluate, record, minimise + report.
pub fn run_cases(ctx: &mut Ctx, eng: &mut Engine, sub: &str, cases: Vec<Case>, gen_slot: &str, oracle: &Oracle<'_>) {
    if ctx.is_replay() {
        let cell = std::cell::RefCell::new(&mut *eng);
        ctx.check_all(sub, Vec::<Case>::new(), |case: &Case, obs| {
            let mut e = cell.borrow_mut();
            match e.results(case) {
                Ok(res) => oracle(case, &res, obs),
                Err(Issue::NotBuilt(f)) => Err(Fail::new(format!("replay-not-built:{:?}", f.stage), f.msg)),
                Err(Issue::Infra(m)) => Err(Fail::new("replay-infra", m)),
            }
        });
        return;
    }
    if let Err(e) = eng.prepare(&cases, gen_slot) {
        ctx.inconclusive(format!("{sub}: {e}"));
        return;
    }
    for case in &cases {
        let res = match eng.results(case) {
            Ok(r) => r,
            Err(Issue::NotBuilt(f)) => {
                ctx.count_excluded(&format!("not-built:{:?}", f.stage), 1);
                continue;
            }
            Err(Issue::Infra(m)) => {
                ctx.inconclusive(format!("{sub}: {m}"));
                return;
            }
        };
        let mut obs = Obs::default();
        match oracle(case, &res, &mut obs) {
            Ok(()) => {
                let h = vcommon::fnv(&serde_json::to_string(case).unwrap());
                ctx.record(sub, h, &obs, || compact(case));
            }
            Err(f) => {
                if ctx.is_known(&f.sig) {
                    ctx.report(sub, &f, Value::Null);
                    ctx.count_excluded("known-finding", 1);
                    continue;
                }
                let min = minimise(eng, case, &f.sig, oracle);
                // re-derive the message on the minimal case
                let f2 = match eng.results(&min) {
                    Ok(res) => {
                        let mut o = Obs::default();
                        match oracle(&min, &res, &mut o) {
                            Err(f2) if f2.sig == f.sig => f2,
                            _ => f.clone(),
                        }
                    }
                    Err(_) => f.clone(),
                };
                ctx.report(sub, &f2, serde_json::to_value(&min).unwrap());
            }
        }
    }
}

/// A compact rendering of a case for evidence samples (full cases can be large).
pub fn compact(case: &Case) -> Value {
    serde_json::json!({
        "program": case.prog.name,
        "classes": case.prog.traits.classes,
        "src": case.prog.src,
        "inputs": (0..case.schedules[0].inputs.len()).map(|i| case.schedules[0].flat(i)).collect::<Vec<_>>(),
        "n_schedules": case.schedules.len(),
        "example_schedule": case.schedules.last().map(|s| &s.inputs),
    })
}
