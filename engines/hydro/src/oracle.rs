//! Oracles for C28 / C29 / C30 / C33 over run results.
use std::collections::BTreeMap;

use serde_json::Value;
use vcommon::{Fail, Obs};

use crate::corpus::{Flat, Ref};
use crate::eval::Case;
use crate::spec::*;
use crate::ty::{canon, multiset};

pub type Refs = BTreeMap<String, BTreeMap<String, Ref>>;

fn first_panic(res: &[RunResult]) -> Option<(usize, String)> {
    res.iter().enumerate().find_map(|(i, r)| r.panic.clone().map(|p| (i, p)))
}

fn squash(s: &str) -> String {
    let first = s.lines().next().unwrap_or("");
    let mut out = String::new();
    let mut last_hash = false;
    for c in first.chars().take(70) {
        if c.is_ascii_digit() {
            if !last_hash {
                out.push('#');
                last_hash = true;
            }
        } else {
            out.push(c);
            last_hash = false;
        }
    }
    out
}

/// Stable label of a program for signatures: the corpus name, or for generated programs the
/// sorted set of its operator classes.
pub fn prog_label(p: &ProgSpec) -> String {
    if p.is_corpus() || p.name.starts_with("k_") {
        p.name.clone()
    } else {
        let mut c = p.traits.classes.clone();
        c.sort();
        c.dedup();
        format!("gen[{}]", c.join(","))
    }
}

/// Label of one output for signatures: corpus programs by name, generated programs by the
/// operator labels on the output's dependency slice.
pub fn out_label(p: &ProgSpec, o: &OutSpec) -> String {
    if p.is_corpus() || p.name.starts_with("k_") {
        format!("{}/{}", p.name, o.name)
    } else {
        format!("gen[{}]", o.slice.join(","))
    }
}

fn per_key(items: &[Value]) -> BTreeMap<String, Vec<String>> {
    let mut m: BTreeMap<String, Vec<String>> = BTreeMap::new();
    for it in items {
        m.entry(canon(&it[0])).or_default().push(canon(&it[1]));
    }
    m
}

/// Does the output still emit (stream kinds) / change (snapshots) in every one of the last 8
/// input-free ticks? Then it has no final content at all: it depends on how many (empty) ticks
/// the runtime happens to run.
fn never_settles(o: &OutSpec, r: &RunResult) -> bool {
    if r.ticks < 10 {
        return false;
    }
    match o.kind {
        OutKind::Seq | OutKind::Bag | OutKind::KeyedSeq => (r.ticks - 8..r.ticks).all(|t| !r.tick_items(&o.name, t).is_empty()),
        OutKind::Final => (r.ticks - 8..r.ticks).all(|t| multiset(&r.tick_items(&o.name, t)) != multiset(&r.tick_items(&o.name, t - 1))),
        _ => false,
    }
}

/// Canonical eventual content of an output under one run, according to its kind.
/// Err(reason) = the run cannot be judged (not quiescent / not settled).
pub fn eventual(o: &OutSpec, r: &RunResult) -> Result<Value, String> {
    if never_settles(o, r) {
        return Err("never-settles".into());
    }
    match o.kind {
        OutKind::Seq => {
            if !r.quiescent {
                return Err("not-quiescent".into());
            }
            Ok(Value::Array(r.items(&o.name)))
        }
        OutKind::Bag => {
            if !r.quiescent {
                return Err("not-quiescent".into());
            }
            Ok(serde_json::json!(multiset(&r.items(&o.name))))
        }
        OutKind::KeyedSeq => {
            if !r.quiescent {
                return Err("not-quiescent".into());
            }
            Ok(serde_json::json!(per_key(&r.items(&o.name))))
        }
        OutKind::Final => {
            if r.ticks < 2 {
                return Err("too-few-ticks".into());
            }
            let last = multiset(&r.tick_items(&o.name, r.ticks - 1));
            let prev = multiset(&r.tick_items(&o.name, r.ticks - 2));
            if last != prev {
                return Err("not-settled".into());
            }
            Ok(serde_json::json!(last))
        }
        _ => Err("per-tick output".into()),
    }
}

fn splits_input(s: &Schedule) -> bool {
    // some input has items in >= 2 ticks, or two inputs deliver in different ticks
    let mut ticks_with_items = std::collections::BTreeSet::new();
    for inp in &s.inputs {
        for (t, items) in inp.iter().enumerate() {
            if !items.is_empty() {
                ticks_with_items.insert(t);
            }
        }
    }
    ticks_with_items.len() >= 2
}

fn describe(s: &Schedule) -> String {
    serde_json::to_string(&s.inputs).unwrap()
}

/// C28: every schedule of the same inputs gives the same eventual output contents.
pub fn c28(case: &Case, res: &[RunResult], obs: &mut Obs) -> Result<(), Fail> {
    let p = &case.prog;
    let label = prog_label(p);
    if let Some((i, pm)) = first_panic(res) {
        return Err(Fail::new(
            format!("c28/panic/{label}/{}", squash(&pm)),
            format!("program {} panicked under schedule {}: {pm}\nschedule: {}", p.name, i, describe(&case.schedules[i])),
        ));
    }
    let mut compared = 0;
    let mut split_compared = false;
    for o in &p.outputs {
        if o.kind.per_tick() {
            continue;
        }
        let unsettled = |i: usize, r: &RunResult| {
            Fail::new(
                format!("c28/{}:{:?}/never-settles", out_label(p, o), o.kind),
                format!(
                    "output {} ({:?}) of {} keeps {} in every one of the last 8 input-free ticks ({} ticks run): it has no final content, what is observed depends on how many empty ticks the runtime runs\n last ticks: {}\n inputs per tick: {}\n source: {}",
                    o.name,
                    o.kind,
                    p.name,
                    if o.kind == OutKind::Final { "changing" } else { "emitting" },
                    r.ticks,
                    serde_json::json!((r.ticks.saturating_sub(4)..r.ticks).map(|t| r.tick_items(&o.name, t)).collect::<Vec<_>>()),
                    describe(&case.schedules[i]),
                    p.src.clone().unwrap_or_else(|| "templates/corpus.rs".into()),
                ),
            )
        };
        let reference = match eventual(o, &res[0]) {
            Ok(v) => v,
            Err(why) if why == "never-settles" => return Err(unsettled(0, &res[0])),
            Err(why) => {
                obs.excluded(format!("reference-{why}"));
                continue;
            }
        };
        for (i, r) in res.iter().enumerate().skip(1) {
            let got = match eventual(o, r) {
                Ok(v) => v,
                Err(why) if why == "never-settles" => return Err(unsettled(i, r)),
                Err(why) => {
                    obs.excluded(format!("schedule-{why}"));
                    continue;
                }
            };
            compared += 1;
            if splits_input(&case.schedules[i]) {
                split_compared = true;
            }
            if got != reference {
                return Err(Fail::new(
                    format!("c28/{}:{:?}", out_label(p, o), o.kind),
                    format!(
                        "eventual content of output {} ({:?}) of {} depends on the tick partition\n single tick : {}\n schedule {i}  : {}\n inputs per tick: {}\n source: {}",
                        o.name,
                        o.kind,
                        p.name,
                        reference,
                        got,
                        describe(&case.schedules[i]),
                        p.src.clone().unwrap_or_else(|| "templates/corpus.rs".into()),
                    ),
                ));
            }
        }
    }
    obs.nontrivial(p.traits.stateful_top && compared > 0 && split_compared);
    for c in &p.traits.classes {
        obs.class(c.clone());
    }
    obs.class(if p.is_corpus() { "corpus" } else { "generated" });
    Ok(())
}

fn flat_of(s: &Schedule) -> Flat {
    Flat { inputs: (0..s.inputs.len()).map(|i| s.flat(i)).collect(), sing: s.sing.clone() }
}

fn grouped_matches(groups: &[Vec<Value>], got: &[Value]) -> bool {
    let mut i = 0;
    for g in groups {
        if i + g.len() > got.len() {
            return false;
        }
        if multiset(g) != multiset(&got[i..i + g.len()]) {
            return false;
        }
        i += g.len();
    }
    i == got.len()
}

/// C29: ordered outputs are emitted in the order the semantics defines (reference), per-key
/// subsequences are identical under every tick partition and every cross-key interleaving.
/// `case.schedules` may contain re-presentations whose flattened inputs differ from schedule 0
/// only by cross-key interleaving (notes[i] == "interleaving").
pub fn c29(refs: &Refs) -> impl Fn(&Case, &[RunResult], &mut Obs) -> Result<(), Fail> + '_ {
    move |case, res, obs| {
        let p = &case.prog;
        let label = prog_label(p);
        if let Some((i, pm)) = first_panic(res) {
            return Err(Fail::new(
                format!("c29/panic/{label}/{}", squash(&pm)),
                format!("program {} panicked under schedule {i}: {pm}", p.name),
            ));
        }
        let prefs = refs.get(&p.name);
        let mut interleavings = 0;
        let mut compared = 0;
        for o in &p.outputs {
            if !matches!(o.kind, OutKind::Seq | OutKind::KeyedSeq) {
                continue;
            }
            let base = match eventual(o, &res[0]) {
                Ok(v) => v,
                Err(why) => {
                    obs.excluded(format!("reference-{why}"));
                    continue;
                }
            };
            for (i, r) in res.iter().enumerate() {
                let inter = case.notes.get(i).map(|n| n == "interleaving").unwrap_or(false);
                if inter && o.kind == OutKind::Seq {
                    // a different input order legitimately gives a different total order
                    continue;
                }
                let got = match eventual(o, r) {
                    Ok(v) => v,
                    Err(why) => {
                        obs.excluded(format!("schedule-{why}"));
                        continue;
                    }
                };
                if inter {
                    interleavings += 1;
                }
                compared += 1;
                // (a) metamorphic: same as the reference presentation
                if got != base {
                    return Err(Fail::new(
                        format!("c29/{}:{:?}/presentation", out_label(p, o), o.kind),
                        format!(
                            "{} output {} of {} differs between presentations of the same input\n reference presentation: {}\n presentation {i} ({}): {}\n inputs per tick: {}\n source: {}",
                            if o.kind == OutKind::Seq { "ordered" } else { "per-key ordered" },
                            o.name,
                            p.name,
                            base,
                            case.notes.get(i).cloned().unwrap_or_default(),
                            got,
                            describe(&case.schedules[i]),
                            p.src.clone().unwrap_or_else(|| "templates/corpus.rs".into()),
                        ),
                    ));
                }
                // (b) reference semantics
                if let Some(rf) = prefs.and_then(|m| m.get(&o.name)) {
                    let flat = flat_of(&case.schedules[i]);
                    let ok = match (rf, &o.kind) {
                        (Ref::Eventual(f), OutKind::Seq) => Value::Array(f(&flat)) == got,
                        (Ref::Eventual(f), OutKind::KeyedSeq) => serde_json::json!(per_key(&f(&flat))) == got,
                        (Ref::Grouped(f), OutKind::Seq) => grouped_matches(&f(&flat), got.as_array().unwrap()),
                        _ => true,
                    };
                    if !ok {
                        let want = match rf {
                            Ref::Eventual(f) => serde_json::json!(f(&flat)),
                            Ref::Grouped(f) => serde_json::json!(f(&flat)),
                            _ => Value::Null,
                        };
                        return Err(Fail::new(
                            format!("c29/{}:{:?}/reference", out_label(p, o), o.kind),
                            format!(
                                "output {} of {} is not the sequence the iterator semantics define\n expected: {}\n got     : {}\n inputs per tick: {}",
                                o.name,
                                p.name,
                                want,
                                got,
                                describe(&case.schedules[i]),
                            ),
                        ));
                    }
                }
            }
        }
        // non-trivial: >= 2 keys each with >= 2 values compared under >= 2 interleavings, or (for
        // non-keyed ordered programs) an ordered output with >= 3 items compared under >= 2 partitions
        let keyed_rich = p.inputs.iter().enumerate().any(|(i, inp)| {
            inp.keyed && {
                let pk = per_key(&case.schedules[0].flat(i));
                pk.values().filter(|v| v.len() >= 2).count() >= 2
            }
        });
        let ordered_rich = p.outputs.iter().any(|o| o.kind == OutKind::Seq && res[0].items(&o.name).len() >= 3);
        obs.nontrivial((keyed_rich && interleavings >= 2) || (ordered_rich && compared >= 3 && !p.inputs.iter().any(|i| i.keyed)));
        if keyed_rich && interleavings >= 2 {
            obs.class("keyed-interleaved");
        }
        for c in &p.traits.classes {
            obs.class(c.clone());
        }
        Ok(())
    }
}

/// C30: per-tick outputs equal the batch reference.
pub fn c30(refs: &Refs) -> impl Fn(&Case, &[RunResult], &mut Obs) -> Result<(), Fail> + '_ {
    move |case, res, obs| {
        let p = &case.prog;
        let label = prog_label(p);
        if let Some((i, pm)) = first_panic(res) {
            return Err(Fail::new(
                format!("c30/panic/{label}/{}", squash(&pm)),
                format!("program {} panicked under schedule {i}: {pm}", p.name),
            ));
        }
        let prefs = refs.get(&p.name);
        let mut rich = false;
        for (i, (s, r)) in case.schedules.iter().zip(res).enumerate() {
            let n = r.ticks;
            for o in &p.outputs {
                if !o.kind.per_tick() {
                    continue;
                }
                let Some(Ref::PerTick(f)) = prefs.and_then(|m| m.get(&o.name)) else { continue };
                let want = f(s, n);
                for t in 0..n {
                    let got = r.tick_items(&o.name, t);
                    let ok = match o.kind {
                        OutKind::PerTickSeq => got == want[t],
                        OutKind::PerTickBag => multiset(&got) == multiset(&want[t]),
                        OutKind::PerTickKeyed => per_key(&got) == per_key(&want[t]),
                        OutKind::PerTickGrouped => {
                            let groups: Vec<Vec<Value>> =
                                want[t].iter().map(|g| g.as_array().cloned().unwrap_or_default()).collect();
                            grouped_matches(&groups, &got)
                        }
                        _ => true,
                    };
                    if !ok {
                        let late = t >= s.n_ticks();
                        return Err(Fail::new(
                            format!("c30/{label}/{}:{:?}{}", o.name, o.kind, if late { "/trailing-tick" } else { "" }),
                            format!(
                                "tick {t} of output {} of {} is not the batch result\n expected: {}\n got     : {}\n batches per tick: {}\n (schedule {i}, {} ticks run)",
                                o.name,
                                p.name,
                                serde_json::json!(want[t]),
                                serde_json::json!(got),
                                describe(s),
                                n
                            ),
                        ));
                    }
                }
            }
            // >= 3 ticks with different batch sizes including an empty one
            let sizes: Vec<usize> = (0..s.n_ticks()).map(|t| s.inputs.iter().map(|inp| inp.get(t).map(|b| b.len()).unwrap_or(0)).sum()).collect();
            let distinct: std::collections::BTreeSet<usize> = sizes.iter().cloned().collect();
            if sizes.len() >= 3 && distinct.len() >= 2 && sizes.contains(&0) {
                rich = true;
            }
        }
        obs.nontrivial(rich && p.traits.cycle_or_defer);
        if rich {
            obs.class("rich-history");
        }
        for c in &p.traits.classes {
            obs.class(c.clone());
        }
        Ok(())
    }
}

fn num(v: &Value) -> Option<f64> {
    v.as_f64()
}

/// Order used for "never decreases": numbers by value, everything else must stay equal or we
/// cannot judge (skipped, counted).
fn leq(a: &Value, b: &Value) -> Option<bool> {
    match (num(a), num(b)) {
        (Some(x), Some(y)) => Some(x <= y),
        _ => {
            if a == b {
                Some(true)
            } else if let (Some(x), Some(y)) = (a.as_array(), b.as_array()) {
                // Vec grows by extension (collect_vec) -- prefix order
                Some(x.len() <= y.len() && x[..] == y[..x.len()])
            } else {
                None
            }
        }
    }
}

/// C33: history invariants over the per-tick snapshots of outputs carrying a type promise.
pub fn c33(case: &Case, res: &[RunResult], obs: &mut Obs) -> Result<(), Fail> {
    let p = &case.prog;
    let label = prog_label(p);
    if let Some((i, pm)) = first_panic(res) {
        return Err(Fail::new(
            format!("c33/panic/{label}/{}", squash(&pm)),
            format!("program {} panicked under schedule {i}: {pm}", p.name),
        ));
    }
    let mut changes_max = 0;
    for (i, (s, r)) in case.schedules.iter().zip(res).enumerate() {
        for o in &p.outputs {
            let Some(promise) = &o.promise else { continue };
            let fail = |what: &str, t: usize, before: &Value, after: &Value| {
                Fail::new(
                    format!("c33/{}:{:?}/{what}", out_label(p, o), promise),
                    format!(
                        "type promise {:?} of output {} of {} is broken between ticks {} and {}: {what}\n before: {}\n after : {}\n inputs per tick: {}\n (schedule {i})",
                        promise,
                        o.name,
                        p.name,
                        t.saturating_sub(1),
                        t,
                        before,
                        after,
                        describe(s)
                    ),
                )
            };
            let mut changes = 0;
            match promise {
                Promise::MonoSingleton => {
                    let mut prev: Option<Value> = None;
                    for t in 0..r.ticks {
                        let items = r.tick_items(&o.name, t);
                        if items.len() != 1 {
                            return Err(Fail::new(
                                format!("c33/{label}/{}:{:?}/cardinality", o.name, promise),
                                format!("snapshot of singleton {} of {} has {} values in tick {t}", o.name, p.name, items.len()),
                            ));
                        }
                        if let Some(pv) = &prev {
                            match leq(pv, &items[0]) {
                                Some(true) => {}
                                Some(false) => return Err(fail("value decreased", t, pv, &items[0])),
                                None => obs.excluded("incomparable-values"),
                            }
                            if *pv != items[0] {
                                changes += 1;
                            }
                        }
                        prev = Some(items[0].clone());
                    }
                }
                Promise::MonoKeys | Promise::MonoValue | Promise::Typed => {
                    // for typed outputs the promise is the code carried by the entries
                    let mut typed_code: Option<u64> = None;
                    if *promise == Promise::Typed {
                        for (_, it) in r.outs.get(&o.name).cloned().unwrap_or_default() {
                            typed_code = it[0].as_u64();
                            break;
                        }
                        obs.class(format!("typed-bound:{}", match typed_code { Some(0) => "Unbounded", Some(1) => "MonotonicKeys", Some(2) => "MonotonicValue", Some(_) => "other", None => "unobserved" }));
                        if !matches!(typed_code, Some(1) | Some(2)) {
                            continue;
                        }
                    }
                    let promise = &match typed_code {
                        Some(1) => Promise::MonoKeys,
                        Some(2) => Promise::MonoValue,
                        _ => promise.clone(),
                    };
                    let typed = typed_code.is_some();
                    let mut prev: Option<BTreeMap<String, Value>> = None;
                    for t in 0..r.ticks {
                        let mut cur: BTreeMap<String, Value> = BTreeMap::new();
                        for it in r.tick_items(&o.name, t) {
                            let it = if typed { serde_json::json!([it[1], it[2]]) } else { it };
                            if cur.insert(canon(&it[0]), it[1].clone()).is_some() {
                                return Err(Fail::new(
                                    format!("c33/{label}/{}:{:?}/duplicate-key", o.name, promise),
                                    format!("snapshot of keyed singleton {} of {} has a key twice in tick {t}", o.name, p.name),
                                ));
                            }
                        }
                        if let Some(pm) = &prev {
                            for (k, v) in pm {
                                match cur.get(k) {
                                    None => {
                                        return Err(fail("key disappeared", t, &serde_json::json!(pm), &serde_json::json!(cur)))
                                    }
                                    Some(v2) => {
                                        if *promise == Promise::MonoValue {
                                            match leq(v, v2) {
                                                Some(true) => {}
                                                Some(false) => {
                                                    return Err(fail("value decreased", t, &serde_json::json!(pm), &serde_json::json!(cur)))
                                                }
                                                None => obs.excluded("incomparable-values"),
                                            }
                                        }
                                    }
                                }
                            }
                            if *pm != cur {
                                changes += 1;
                            }
                        }
                        prev = Some(cur);
                    }
                }
                Promise::BoundedValue => {
                    // entries of a BoundedValue keyed singleton are a stream of (k, v): a key may
                    // appear at most once over the whole history
                    let mut seen: BTreeMap<String, (usize, Value)> = BTreeMap::new();
                    let mut last_tick = None;
                    for (t, it) in r.outs.get(&o.name).cloned().unwrap_or_default() {
                        if let Some((t0, v0)) = seen.get(&canon(&it[0])) {
                            return Err(Fail::new(
                                format!("c33/{label}/{}:{:?}/re-emitted", o.name, promise),
                                format!(
                                    "bounded-value entry for key {} of output {} of {} emitted in tick {t0} as {} and again in tick {t} as {}\n inputs per tick: {}",
                                    it[0], o.name, p.name, v0, it[1], describe(s)
                                ),
                            ));
                        }
                        seen.insert(canon(&it[0]), (t, it[1].clone()));
                        if last_tick != Some(t) {
                            changes += 1;
                            last_tick = Some(t);
                        }
                    }
                }
            }
            changes_max = changes_max.max(changes);
        }
    }
    // >= 3 snapshots in which the collection actually changed twice
    obs.nontrivial(changes_max >= 2);
    for c in &p.traits.classes {
        obs.class(c.clone());
    }
    Ok(())
}

fn per_tick_equal(kind: &OutKind, a: &[Value], b: &[Value]) -> bool {
    match kind {
        OutKind::PerTickSeq => a == b,
        OutKind::PerTickBag => multiset(a) == multiset(b),
        OutKind::PerTickKeyed => per_key(a) == per_key(b),
        _ => multiset(a) == multiset(b),
    }
}

/// Window schedule for tick `t` of history `s` (padded with `pad` empty ticks) and delay `d`:
/// the batches t-d..=t (clipped at 0). Returns (schedule, index of tick t inside the window).
pub fn window(s: &Schedule, t: usize, d: usize) -> (Schedule, usize) {
    let lo = t.saturating_sub(d);
    let inputs = s
        .inputs
        .iter()
        .map(|inp| (lo..=t).map(|i| inp.get(i).cloned().unwrap_or_default()).collect())
        .collect();
    (Schedule { inputs, sing: s.sing.clone() }, t - lo)
}

/// C30 for generated tick programs (no reference model): (a) window locality -- the output of
/// tick t equals the output of the last tick of a fresh run that only sees the batches
/// t-d..=t (d = number of defer_tick on the path): tick-scoped state does not leak and deferred
/// values arrive exactly d ticks later; (b) an output that is `defer_tick()` of another output
/// shows that output's previous tick.
/// case.schedules = [history, window(t) for every t in 0..ticks_run]; notes[i] = "window:<t>:<idx>".
pub fn c30_gen(case: &Case, res: &[RunResult], obs: &mut Obs) -> Result<(), Fail> {
    let p = &case.prog;
    let label = prog_label(p);
    if let Some((i, pm)) = first_panic(res) {
        return Err(Fail::new(
            format!("c30/panic/{label}/{}", squash(&pm)),
            format!("program {} panicked under schedule {i}: {pm}\nsource: {}", p.name, p.src.clone().unwrap_or_default()),
        ));
    }
    let hist = &res[0];
    let s = &case.schedules[0];
    // (b) shifted outputs
    for o in &p.outputs {
        let Some(base) = &o.shift_of else { continue };
        for t in 0..hist.ticks {
            let got = hist.tick_items(&o.name, t);
            let want = if t == 0 { vec![] } else { hist.tick_items(base, t - 1) };
            if !per_tick_equal(&o.kind, &got, &want) {
                return Err(Fail::new(
                    format!("c30/{}/defer-shift:{:?}", out_label(p, o), o.kind),
                    format!(
                        "output {} = defer_tick() of output {base} of {}: tick {t} shows {} but {base} showed {} in tick {}\n batches per tick: {}\n source: {}",
                        o.name,
                        p.name,
                        serde_json::json!(got),
                        serde_json::json!(want),
                        t as i64 - 1,
                        describe(s),
                        p.src.clone().unwrap_or_default()
                    ),
                ));
            }
        }
    }
    // (c) across_ticks outputs: the concatenation over all ticks equals that of the run in which
    //     every input arrives as a single batch
    if let Some(i) = case.notes.iter().position(|n| n == "single-batch") {
        for o in p.outputs.iter().filter(|o| o.concat) {
            let got = hist.items(&o.name);
            let want = res[i].items(&o.name);
            if got != want {
                return Err(Fail::new(
                    format!("c30/{}/across-concat:{:?}", out_label(p, o), o.kind),
                    format!(
                        "output {} of {} is across_ticks(..) of a per-item pipeline: its concatenation over the ticks must not depend on the batching\n history      : {}\n single batch : {}\n history batches per tick: {}\n source: {}",
                        o.name,
                        p.name,
                        serde_json::json!(got),
                        serde_json::json!(want),
                        describe(s),
                        p.src.clone().unwrap_or_default()
                    ),
                ));
            }
        }
    }
    // (a) window locality
    let mut compared = 0;
    for (i, note) in case.notes.iter().enumerate() {
        let Some(rest) = note.strip_prefix("window:") else { continue };
        let mut it = rest.split(':');
        let t: usize = it.next().unwrap().parse().unwrap();
        let idx: usize = it.next().unwrap().parse().unwrap();
        let w = &res[i];
        for o in &p.outputs {
            if !o.kind.per_tick() || o.concat {
                continue;
            }
            let got = hist.tick_items(&o.name, t);
            let want = w.tick_items(&o.name, idx);
            compared += 1;
            if !per_tick_equal(&o.kind, &got, &want) {
                return Err(Fail::new(
                    format!("c30/{}/window:{:?}", out_label(p, o), o.kind),
                    format!(
                        "tick {t} of output {} of {} depends on more than the batches of the last {} tick(s)\n in the full history : {}\n in a fresh run on the window {}: {}\n history batches per tick: {}\n source: {}",
                        o.name,
                        p.name,
                        idx + 1,
                        serde_json::json!(got),
                        describe(&case.schedules[i]),
                        serde_json::json!(want),
                        describe(s),
                        p.src.clone().unwrap_or_default()
                    ),
                ));
            }
        }
    }
    let sizes: Vec<usize> = (0..s.n_ticks()).map(|t| s.inputs.iter().map(|inp| inp.get(t).map(|b| b.len()).unwrap_or(0)).sum()).collect();
    let distinct: std::collections::BTreeSet<usize> = sizes.iter().cloned().collect();
    let rich = sizes.len() >= 3 && distinct.len() >= 2 && sizes.contains(&0);
    obs.nontrivial(rich && p.traits.cycle_or_defer && compared > 0);
    if rich {
        obs.class("rich-history");
    }
    obs.class("generated");
    for c in &p.traits.classes {
        obs.class(c.clone());
    }
    Ok(())
}


/// C32: every admissible presentation (permutation / duplication / cross-key interleaving, as the
/// weakened input type allows) of the same abstract input gives the same result, equal to the
/// obvious reference. schedules[0] is the canonical presentation.
pub fn c32(refs: &Refs) -> impl Fn(&Case, &[RunResult], &mut Obs) -> Result<(), Fail> + '_ {
    move |case, res, obs| {
        let p = &case.prog;
        let label = prog_label(p);
        if let Some((i, pm)) = first_panic(res) {
            return Err(Fail::new(
                format!("c32/panic/{label}/{}", squash(&pm)),
                format!("program {} panicked under presentation {i}: {pm}", p.name),
            ));
        }
        let prefs = refs.get(&p.name);
        for o in &p.outputs {
            let rf = prefs.and_then(|m| m.get(&o.name));
            if o.kind.per_tick() {
                let Some(Ref::PerTick(f)) = rf else { continue };
                for (i, (s, r)) in case.schedules.iter().zip(res).enumerate() {
                    let want = f(s, r.ticks);
                    for t in 0..r.ticks {
                        let got = r.tick_items(&o.name, t);
                        if !per_tick_equal(&o.kind, &got, &want[t]) {
                            return Err(Fail::new(
                                format!("c32/{label}/{}:{:?}", o.name, o.kind),
                                format!(
                                    "per-batch result {} of {} under presentation {i} ({}) is not the reference\n expected: {}\n got     : {}\n batches: {}",
                                    o.name,
                                    p.name,
                                    case.notes.get(i).cloned().unwrap_or_default(),
                                    serde_json::json!(want[t]),
                                    serde_json::json!(got),
                                    describe(s)
                                ),
                            ));
                        }
                    }
                }
            } else {
                let base = match eventual(o, &res[0]) {
                    Ok(v) => v,
                    Err(why) => {
                        obs.excluded(format!("reference-{why}"));
                        continue;
                    }
                };
                for (i, (s, r)) in case.schedules.iter().zip(res).enumerate() {
                    let got = match eventual(o, r) {
                        Ok(v) => v,
                        Err(why) => {
                            obs.excluded(format!("schedule-{why}"));
                            continue;
                        }
                    };
                    let order_sensitive = matches!(o.kind, OutKind::Seq);
                    if got != base && !(order_sensitive && case.notes.get(i).map(|n| n != "partition").unwrap_or(false)) {
                        return Err(Fail::new(
                            format!("c32/{label}/{}:{:?}/presentation", o.name, o.kind),
                            format!(
                                "result {} of {} differs between admissible presentations of the same input\n canonical presentation: {}\n presentation {i} ({}): {}\n inputs per tick: {}",
                                o.name,
                                p.name,
                                base,
                                case.notes.get(i).cloned().unwrap_or_default(),
                                got,
                                describe(s)
                            ),
                        ));
                    }
                    if let Some(Ref::Eventual(f)) = rf {
                        let flat = flat_of(s);
                        let want = f(&flat);
                        let ok = match o.kind {
                            OutKind::Seq => Value::Array(want.clone()) == got,
                            OutKind::KeyedSeq => serde_json::json!(per_key(&want)) == got,
                            _ => serde_json::json!(multiset(&want)) == got,
                        };
                        if !ok {
                            return Err(Fail::new(
                                format!("c32/{label}/{}:{:?}/reference", o.name, o.kind),
                                format!(
                                    "result {} of {} under presentation {i} ({}) is not the reference\n expected: {}\n got     : {}\n inputs per tick: {}",
                                    o.name,
                                    p.name,
                                    case.notes.get(i).cloned().unwrap_or_default(),
                                    serde_json::json!(want),
                                    got,
                                    describe(s)
                                ),
                            ));
                        }
                    }
                }
            }
        }
        // non-trivial: >= 3 distinct values and >= 1 duplicate in some input, >= 2 presentations
        let rich = (0..case.schedules[0].inputs.len()).any(|i| {
            let flat = case.schedules[0].flat(i);
            let ms = multiset(&flat);
            let mut d = ms.clone();
            d.dedup();
            d.len() >= 3 && d.len() < ms.len()
        });
        obs.nontrivial(rich && case.schedules.len() >= 2);
        for n in case.notes.iter().skip(1).take(1) {
            obs.class(format!("adversary:{}", n.split(':').next().unwrap_or("")));
        }
        for c in &p.traits.classes {
            obs.class(c.clone());
        }
        Ok(())
    }
}
