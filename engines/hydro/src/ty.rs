//! Element types of the generated / corpus programs and host-side values (JSON).
use serde::{Deserialize, Serialize};
use serde_json::{json, Value};

#[derive(Clone, Debug, PartialEq, Eq, Hash, Serialize, Deserialize, PartialOrd, Ord)]
pub enum Ty {
    I64,
    Usize,
    Bool,
    Unit,
    Str,
    Tup(Vec<Ty>),
    Vec(Box<Ty>),
    Opt(Box<Ty>),
}

impl Ty {
    pub fn pair(a: Ty, b: Ty) -> Ty {
        Ty::Tup(vec![a, b])
    }
    pub fn rust(&self) -> String {
        match self {
            Ty::I64 => "i64".into(),
            Ty::Usize => "usize".into(),
            Ty::Bool => "bool".into(),
            Ty::Unit => "()".into(),
            Ty::Str => "String".into(),
            Ty::Tup(ts) => {
                if ts.len() == 1 {
                    format!("({},)", ts[0].rust())
                } else {
                    format!("({})", ts.iter().map(|t| t.rust()).collect::<Vec<_>>().join(", "))
                }
            }
            Ty::Vec(t) => format!("Vec<{}>", t.rust()),
            Ty::Opt(t) => format!("Option<{}>", t.rust()),
        }
    }
    pub fn is_pair(&self) -> bool {
        matches!(self, Ty::Tup(ts) if ts.len() == 2)
    }
    pub fn key_val(&self) -> Option<(Ty, Ty)> {
        match self {
            Ty::Tup(ts) if ts.len() == 2 => Some((ts[0].clone(), ts[1].clone())),
            _ => None,
        }
    }
    /// types that are `Eq + Hash + Ord + Clone` in Rust (all of ours are)
    pub fn hashable(&self) -> bool {
        true
    }
    /// A value of this type from a small colliding domain, driven by a choice word.
    pub fn value(&self, w: &mut dyn FnMut() -> u64) -> Value {
        match self {
            Ty::I64 => json!((w() % 5) as i64),
            Ty::Usize => json!(w() % 4),
            Ty::Bool => json!(w() % 2 == 0),
            Ty::Unit => Value::Null,
            Ty::Str => json!(["a", "b", "c", "dd"][(w() % 4) as usize]),
            Ty::Tup(ts) => Value::Array(ts.iter().map(|t| t.value(w)).collect()),
            Ty::Vec(t) => {
                let n = w() % 3;
                Value::Array((0..n).map(|_| t.value(w)).collect())
            }
            Ty::Opt(t) => {
                if w() % 3 == 0 {
                    Value::Null
                } else {
                    t.value(w)
                }
            }
        }
    }
}

/// Canonical text of a JSON value (object keys sorted by serde_json's BTreeMap default).
pub fn canon(v: &Value) -> String {
    serde_json::to_string(v).unwrap()
}

pub fn multiset(vs: &[Value]) -> Vec<String> {
    let mut s: Vec<String> = vs.iter().map(canon).collect();
    s.sort();
    s
}

impl Ty {
    /// Parse the small type language used by the corpus registry: i64, usize, bool, (), String,
    /// (A,B,..), Vec<A>, Option<A>.
    pub fn parse(s: &str) -> Ty {
        let s: String = s.chars().filter(|c| !c.is_whitespace()).collect();
        let (t, rest) = Self::parse_at(&s);
        assert!(rest.is_empty(), "trailing input in type {s}: {rest}");
        t
    }
    fn parse_at(s: &str) -> (Ty, &str) {
        if let Some(r) = s.strip_prefix("i64") {
            (Ty::I64, r)
        } else if let Some(r) = s.strip_prefix("usize") {
            (Ty::Usize, r)
        } else if let Some(r) = s.strip_prefix("bool") {
            (Ty::Bool, r)
        } else if let Some(r) = s.strip_prefix("String") {
            (Ty::Str, r)
        } else if let Some(r) = s.strip_prefix("()") {
            (Ty::Unit, r)
        } else if let Some(r) = s.strip_prefix("Vec<") {
            let (t, r) = Self::parse_at(r);
            (Ty::Vec(Box::new(t)), r.strip_prefix('>').expect("> expected"))
        } else if let Some(r) = s.strip_prefix("Option<") {
            let (t, r) = Self::parse_at(r);
            (Ty::Opt(Box::new(t)), r.strip_prefix('>').expect("> expected"))
        } else if let Some(mut r) = s.strip_prefix('(') {
            let mut ts = vec![];
            loop {
                let (t, r2) = Self::parse_at(r);
                ts.push(t);
                if let Some(r3) = r2.strip_prefix(',') {
                    r = r3;
                } else {
                    r = r2.strip_prefix(')').expect(") expected");
                    break;
                }
            }
            (Ty::Tup(ts), r)
        } else {
            panic!("cannot parse type at {s}")
        }
    }
}
