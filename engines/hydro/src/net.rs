//! C35: network topologies compiled once with the embedded backend (templates/net.rs) and driven
//! by hand-written glue (templates/netglue/*.rs) in which the harness is the network.
use serde_json::{json, Value};
use vcommon::{Fail, Obs};

use crate::batch::Special;
use crate::eval::Case;
use crate::sched::Choices;
use crate::spec::*;
use crate::ty::{canon, multiset, Ty};

const COMMON: &str = include_str!("../templates/netglue/common.rs");

struct Topo {
    name: &'static str,
    glue: &'static str,
    /// (location constructor, type, fn-name suffix) for the two locations
    src: (&'static str, &'static str),
    dst: (&'static str, &'static str),
}

const TOPOS: &[Topo] = &[
    Topo { name: "n_o2o_bincode", glue: include_str!("../templates/netglue/n_o2o_bincode.rs"), src: ("process", "NSrc"), dst: ("process", "NDst") },
    Topo { name: "n_o2o_embedded", glue: include_str!("../templates/netglue/n_o2o_embedded.rs"), src: ("process", "NSrc"), dst: ("process", "NDst") },
    Topo { name: "n_demux_bincode", glue: include_str!("../templates/netglue/n_demux_bincode.rs"), src: ("process", "NSrc"), dst: ("cluster", "CDst") },
    Topo { name: "n_demux_embedded", glue: include_str!("../templates/netglue/n_demux_embedded.rs"), src: ("process", "NSrc"), dst: ("cluster", "CDst") },
    Topo { name: "n_broadcast_bincode", glue: include_str!("../templates/netglue/n_broadcast_bincode.rs"), src: ("process", "NSrc"), dst: ("cluster", "CDst") },
    Topo { name: "n_m2o_bincode", glue: include_str!("../templates/netglue/n_m2o_bincode.rs"), src: ("cluster", "CSrc"), dst: ("process", "NDst") },
    Topo { name: "n_m2o_embedded", glue: include_str!("../templates/netglue/n_m2o_embedded.rs"), src: ("cluster", "CSrc"), dst: ("process", "NDst") },
    Topo { name: "n_m2m_bincode", glue: include_str!("../templates/netglue/n_m2m_bincode.rs"), src: ("cluster", "CSrc"), dst: ("cluster", "CDst") },
];

pub fn specials() -> Vec<Special> {
    let mut out = vec![];
    for t in TOPOS {
        let n = t.name;
        let with = |kind: &str| if kind == "process" { "with_process" } else { "with_cluster" };
        let snippet = format!(
            r#"        let mut flow = hydro_lang::compile::builder::FlowBuilder::new();
        let src = flow.{sk}::<{{PC}}::net::{st}>();
        let dst = flow.{dk}::<{{PC}}::net::{dt}>();
        {{PC}}::net::{n}(&src, &dst);
        phase.set("compile");
        let code = flow.{ws}(&src, "{n}_src").{wd}(&dst, "{n}_dst").generate_embedded("{{PC}}");
        phase.set("unparse");
        prettyplease::unparse(&code)"#,
            sk = t.src.0,
            st = t.src.1,
            dk = t.dst.0,
            dt = t.dst.1,
            ws = with(t.src.0),
            wd = with(t.dst.0),
        );
        out.push(Special { name: n.to_string(), build_snippet: snippet, glue: format!("{COMMON}\n{}", t.glue) });
    }
    out.push(Special {
        name: "n_member_id".into(),
        build_snippet: "        String::new()".into(),
        glue: format!("{COMMON}\n{}", include_str!("../templates/netglue/n_member_id.rs")),
    });
    out
}

pub fn topo_names() -> Vec<&'static str> {
    TOPOS.iter().map(|t| t.name).collect()
}

fn special_spec(name: &str) -> ProgSpec {
    ProgSpec {
        name: name.to_string(),
        src: None,
        inputs: vec![InSpec { name: "in0".into(), ty: Ty::Unit, keyed: false }],
        sing_inputs: vec![],
        outputs: vec![],
        traits: Traits { classes: vec!["network".into()], tick_program: true, ..Default::default() },
        locs: vec![],
        no_run: false,
    }
}

const STRINGS: &[&str] = &["", "a", "hello world", "ünï©ödé ✓ 日本語", "\u{0}\u{1f600}\"quoted\"\\", "  ", "0123456789012345678901234567890123456789"];

fn string(ch: &mut Choices) -> Value {
    json!(STRINGS[ch.below(STRINGS.len())])
}

fn pick_i64(ch: &mut Choices) -> i64 {
    match ch.below(8) {
        0 => i64::MIN,
        1 => i64::MAX,
        2 => 0,
        3 => -1,
        4 => 1 << 40,
        _ => (ch.next() % 2000) as i64 - 1000,
    }
}

fn shape(ch: &mut Choices, depth: u32) -> Value {
    match ch.below(if depth >= 3 { 5 } else { 6 }) {
        0 => json!("Unit"),
        1 => json!({ "N": pick_i64(ch) }),
        2 => json!({ "S": string(ch) }),
        3 => {
            let n = ch.below(4);
            let v: Vec<u32> = (0..n).map(|_| [0u32, 1, u32::MAX, 70000][ch.below(4)]).collect();
            json!({ "V": v })
        }
        4 => {
            let n = ch.below(4);
            let b: Vec<Value> = (0..n)
                .map(|_| if ch.chance(1, 3) { Value::Null } else { json!([i16::MIN, i16::MAX, 0, -7][ch.below(4)]) })
                .collect();
            let a = [0u8, 255, 7][ch.below(3)];
            json!({ "Rec": { "a": a, "b": b } })
        }
        _ => {
            let inner = shape(ch, depth + 1);
            let s = if ch.chance(1, 2) { Value::Null } else { string(ch) };
            json!({ "Pair": [inner, s] })
        }
    }
}

pub fn payload(ch: &mut Choices) -> Value {
    let id: u64 = match ch.below(5) {
        0 => u64::MAX,
        1 => 0,
        2 => 1 << 63,
        _ => ch.next() % 100000,
    };
    let n_tags = ch.below(4);
    let tags: Vec<Value> = (0..n_tags)
        .map(|_| {
            let t = [i8::MIN, i8::MAX, 0, -1, 5][ch.below(5)];
            let s = if ch.chance(1, 2) { Value::Null } else { string(ch) };
            json!([t, s])
        })
        .collect();
    json!({
        "id": id,
        "name": string(ch),
        "tags": tags,
        "shape": shape(ch, 0),
        "unit": Value::Null,
        "flag": ch.chance(1, 2),
    })
}

fn member_ids(ch: &mut Choices) -> Vec<u32> {
    let n = 1 + ch.below(4);
    let mut ids: Vec<u32> = vec![];
    while ids.len() < n {
        let id = match ch.below(6) {
            0 => 0,
            1 => u32::MAX,
            2 => u32::MAX - 1,
            3 => 1 << 31,
            _ => (ch.next() % 1000) as u32,
        };
        if !ids.contains(&id) {
            ids.push(id);
        }
    }
    ids
}

/// One case per (topology, random configuration): a single schedule whose input 0 / tick 0 holds
/// the messages and whose singleton slot 0 holds the member configuration.
pub fn cases(ch: &mut Choices, per_topo: usize, msgs_per_case: usize) -> Vec<Case> {
    let mut out = vec![];
    for t in TOPOS {
        for _ in 0..per_topo {
            let members = member_ids(ch);
            let senders = member_ids(ch);
            let n = 1 + ch.below(msgs_per_case);
            let msgs: Vec<Value> = (0..n)
                .map(|_| {
                    let p = payload(ch);
                    match t.name {
                        "n_demux_bincode" | "n_demux_embedded" | "n_m2m_bincode" => {
                            // mostly members, sometimes an id that is not a member (must reach nobody)
                            let dst = if ch.chance(1, 8) { 424242u32 } else { members[ch.below(members.len())] };
                            json!([dst, p])
                        }
                        "n_m2o_bincode" | "n_m2o_embedded" => json!([members[ch.below(members.len())], p]),
                        _ => p,
                    }
                })
                .collect();
            let cfg = json!({ "members": members, "senders": senders });
            out.push(Case {
                prog: special_spec(t.name),
                schedules: vec![Schedule { inputs: vec![vec![msgs]], sing: vec![cfg] }],
                notes: vec![],
            });
        }
    }
    // member id round trips
    for _ in 0..per_topo {
        let ids: Vec<Value> = (0..40)
            .map(|_| {
                json!(match ch.below(6) {
                    0 => 0u32,
                    1 => u32::MAX,
                    2 => 1 << 31,
                    3 => 65536,
                    _ => ch.next() as u32,
                })
            })
            .collect();
        out.push(Case {
            prog: special_spec("n_member_id"),
            schedules: vec![Schedule { inputs: vec![vec![ids]], sing: vec![json!({})] }],
            notes: vec![],
        });
    }
    out
}

fn nested_variable(p: &Value) -> bool {
    let s = canon(p);
    s.contains("\"Pair\"") || s.contains("\"V\":[") || s.contains("\"Rec\"")
}

pub fn oracle(case: &Case, res: &[RunResult], obs: &mut Obs) -> Result<(), Fail> {
    let name = case.prog.name.as_str();
    let r = &res[0];
    if let Some(pm) = &r.panic {
        return Err(Fail::new(format!("c35/{name}/panic"), format!("{name} panicked: {pm}")));
    }
    let s = &case.schedules[0];
    let msgs: Vec<Value> = s.inputs[0][0].clone();
    let members: Vec<u64> = s.sing[0]["members"].as_array().map(|a| a.iter().map(|x| x.as_u64().unwrap()).collect()).unwrap_or_default();
    let senders: Vec<u64> = s.sing[0]["senders"].as_array().map(|a| a.iter().map(|x| x.as_u64().unwrap()).collect()).unwrap_or_default();
    let out = r.items("out0");
    let fail = |what: &str, want: Value, got: Value| {
        Fail::new(
            format!("c35/{name}/{what}"),
            format!("{name}: {what}\n expected: {want}\n got     : {got}\n members: {members:?} senders: {senders:?}\n messages: {}", json!(msgs)),
        )
    };
    let mut payloads: Vec<Value> = vec![];
    match name {
        "n_o2o_bincode" | "n_o2o_embedded" => {
            payloads = msgs.clone();
            if out != msgs {
                return Err(fail("receiver output is not the sender input sequence", json!(msgs), json!(out)));
            }
        }
        "n_demux_bincode" | "n_demux_embedded" => {
            // per member: exactly the payloads addressed to it, in order
            for m in &members {
                let want: Vec<Value> = msgs.iter().filter(|x| x[0].as_u64() == Some(*m)).map(|x| x[1].clone()).collect();
                let got: Vec<Value> = out.iter().filter(|x| x[0].as_u64() == Some(*m)).map(|x| x[1].clone()).collect();
                if want != got {
                    return Err(fail(&format!("member receives exactly the payloads addressed to it"), json!([m, want]), json!([m, got])));
                }
            }
            // wire tags are exactly the addressed ids, in order
            let tags: Vec<Value> = r.items("wire_tags");
            let want_tags: Vec<Value> = msgs.iter().map(|x| x[0].clone()).collect();
            if tags != want_tags {
                return Err(fail("payload appears only on the addressed member's wire", json!(want_tags), json!(tags)));
            }
            payloads = msgs.iter().map(|x| x[1].clone()).collect();
        }
        "n_broadcast_bincode" => {
            for m in &members {
                let got: Vec<Value> = out.iter().filter(|x| x[0].as_u64() == Some(*m)).map(|x| x[1].clone()).collect();
                if got != msgs {
                    return Err(fail("every member receives every payload in order", json!([m, msgs]), json!([m, got])));
                }
            }
            payloads = msgs.clone();
        }
        "n_m2o_bincode" | "n_m2o_embedded" => {
            // receiver sees (sender id, payload) for every message; per sender in order
            if multiset(&out) != multiset(&msgs) {
                return Err(fail("receiver sees every payload tagged with its sender's member id", json!(msgs), json!(out)));
            }
            for m in &members {
                let want: Vec<Value> = msgs.iter().filter(|x| x[0].as_u64() == Some(*m)).cloned().collect();
                let got: Vec<Value> = out.iter().filter(|x| x[0].as_u64() == Some(*m)).cloned().collect();
                if want != got {
                    return Err(fail("per-sender order", json!(want), json!(got)));
                }
            }
            payloads = msgs.iter().map(|x| x[1].clone()).collect();
        }
        "n_m2m_bincode" => {
            // every destination member sees, from every sender, exactly the payloads addressed to it
            let mut want: Vec<Value> = vec![];
            for snd in &senders {
                for x in &msgs {
                    if members.contains(&x[0].as_u64().unwrap()) {
                        want.push(json!([x[0], snd, x[1]]));
                    }
                }
            }
            if multiset(&want) != multiset(&out) {
                return Err(fail("destination sees (sender id, payload) exactly for the payloads addressed to it", json!(want), json!(out)));
            }
            payloads = msgs.iter().map(|x| x[1].clone()).collect();
        }
        "n_member_id" => {
            for (raw, o) in msgs.iter().zip(&out) {
                let ok = o["raw"] == *raw
                    && o["tagless_round_trip_eq"] == json!(true)
                    && o["raw_after_round_trip"] == *raw
                    && o["tagless_raw"] == *raw
                    && o["tagless_from_raw_eq"] == json!(true)
                    && o["bincode_eq"] == json!(true)
                    && o["tagless_bincode_eq"] == json!(true);
                if !ok {
                    return Err(fail("member id round trip through the untyped form", raw.clone(), o.clone()));
                }
            }
            if out.len() != msgs.len() {
                return Err(fail("member id round trip count", json!(msgs.len()), json!(out.len())));
            }
            obs.nontrivial(true);
            obs.class("member-id");
            return Ok(());
        }
        _ => {}
    }
    obs.nontrivial(payloads.iter().any(nested_variable) && (members.len() >= 2 || name.starts_with("n_o2o")));
    obs.class(name.to_string());
    Ok(())
}
