//! Inputs and schedules (tick partitions, cross-key interleavings, permutations, duplications).
use serde_json::Value;
use vcommon::proptest::prelude::*;
use vcommon::proptest::strategy::ValueTree;
use vcommon::proptest::test_runner::{Config, RngAlgorithm, RngSeed, TestRunner};

use crate::spec::{ProgSpec, Schedule};

/// Deterministic choice source: proptest's own RNG behind a fixed seed (no other RNG is used).
pub struct Choices {
    runner: TestRunner,
}

impl Choices {
    pub fn new(seed: u64) -> Choices {
        let cfg = Config {
            failure_persistence: None,
            rng_algorithm: RngAlgorithm::ChaCha,
            rng_seed: RngSeed::Fixed(seed),
            ..Config::default()
        };
        Choices { runner: TestRunner::new(cfg) }
    }
    pub fn next(&mut self) -> u64 {
        any::<u64>().new_tree(&mut self.runner).unwrap().current()
    }
    pub fn below(&mut self, n: usize) -> usize {
        if n == 0 {
            0
        } else {
            (self.next() % n as u64) as usize
        }
    }
    pub fn chance(&mut self, num: u64, den: u64) -> bool {
        self.next() % den < num
    }
}

/// Random input contents for a program: per input a list of items from the colliding domain.
pub fn gen_inputs(p: &ProgSpec, ch: &mut Choices, max_len: usize) -> (Vec<Vec<Value>>, Vec<Value>) {
    let mut inputs = vec![];
    for inp in &p.inputs {
        // bias towards 3..=max_len items so that splits are possible
        let n = if ch.chance(1, 6) { ch.below(3) } else { 2 + ch.below(max_len.saturating_sub(1)) };
        let n = n.min(max_len);
        let items = (0..n).map(|_| inp.ty.value(&mut || ch.next())).collect();
        inputs.push(items);
    }
    let sing = p.sing_inputs.iter().map(|s| s.ty.value(&mut || ch.next())).collect();
    (inputs, sing)
}

/// Split a list according to a composition (sizes of consecutive parts).
pub fn split(items: &[Value], parts: &[usize]) -> Vec<Vec<Value>> {
    let mut out = vec![];
    let mut i = 0;
    for &p in parts {
        out.push(items[i..i + p].to_vec());
        i += p;
    }
    assert_eq!(i, items.len());
    out
}

fn pad(mut ticks: Vec<Vec<Value>>, n: usize) -> Vec<Vec<Value>> {
    while ticks.len() < n {
        ticks.push(vec![]);
    }
    ticks
}

/// A schedule from an explicit tick assignment: `assign[i][j]` = tick of item j of input i
/// (non-decreasing in j).
pub fn from_assignment(inputs: &[Vec<Value>], sing: &[Value], assign: &[Vec<usize>]) -> Schedule {
    let n_ticks = assign.iter().flatten().max().map(|m| m + 1).unwrap_or(1);
    let mut ins = vec![];
    for (i, items) in inputs.iter().enumerate() {
        let mut ticks: Vec<Vec<Value>> = vec![vec![]; n_ticks];
        for (j, it) in items.iter().enumerate() {
            ticks[assign[i][j]].push(it.clone());
        }
        ins.push(ticks);
    }
    Schedule { inputs: ins, sing: sing.to_vec() }
}

/// The single-tick reference schedule.
pub fn single_tick(inputs: &[Vec<Value>], sing: &[Value]) -> Schedule {
    Schedule { inputs: inputs.iter().map(|i| vec![i.clone()]).collect(), sing: sing.to_vec() }
}

/// Tick partitions of the given inputs: exhaustive compositions for a single input of <= 6 items
/// (plus variants with empty ticks), structured + sampled monotone assignments otherwise.
/// Schedule 0 is always the single-tick reference.
pub fn partitions(inputs: &[Vec<Value>], sing: &[Value], ch: &mut Choices, max: usize) -> Vec<Schedule> {
    let mut out = vec![single_tick(inputs, sing)];
    let total: usize = inputs.iter().map(|i| i.len()).sum();
    let push = |s: Schedule, out: &mut Vec<Schedule>| {
        if !out.contains(&s) {
            out.push(s);
        }
    };
    if inputs.len() == 1 && inputs[0].len() <= 6 {
        let n = inputs[0].len();
        for parts in vcommon::compositions(n) {
            if parts.len() <= 1 {
                continue;
            }
            push(Schedule { inputs: vec![split(&inputs[0], &parts)], sing: sing.to_vec() }, &mut out);
        }
        // empty leading / interleaved ticks
        if n >= 1 {
            let mut lead = vec![vec![]];
            lead.push(inputs[0].clone());
            push(Schedule { inputs: vec![lead], sing: sing.to_vec() }, &mut out);
            let mut holes = vec![];
            for it in &inputs[0] {
                holes.push(vec![it.clone()]);
                holes.push(vec![]);
            }
            push(Schedule { inputs: vec![holes], sing: sing.to_vec() }, &mut out);
        }
    } else {
        // structured: every item in its own tick (round-robin over inputs), A before B, B before A
        let k = inputs.len();
        {
            let mut assign: Vec<Vec<usize>> = inputs.iter().map(|i| vec![0; i.len()]).collect();
            let mut t = 0;
            let maxlen = inputs.iter().map(|i| i.len()).max().unwrap_or(0);
            for j in 0..maxlen {
                for i in 0..k {
                    if j < inputs[i].len() {
                        assign[i][j] = t;
                        t += 1;
                    }
                }
            }
            if total > 0 {
                push(from_assignment(inputs, sing, &assign), &mut out);
            }
        }
        for order in 0..2 {
            let mut assign: Vec<Vec<usize>> = inputs.iter().map(|i| vec![0; i.len()]).collect();
            let idx: Vec<usize> = if order == 0 { (0..k).collect() } else { (0..k).rev().collect() };
            for (t, i) in idx.iter().enumerate() {
                for j in 0..inputs[*i].len() {
                    assign[*i][j] = t;
                }
            }
            if total > 0 {
                push(from_assignment(inputs, sing, &assign), &mut out);
            }
        }
        // one item per tick inside each input, inputs aligned
        {
            let assign: Vec<Vec<usize>> = inputs.iter().map(|i| (0..i.len()).collect()).collect();
            if total > 0 {
                push(from_assignment(inputs, sing, &assign), &mut out);
            }
        }
        // sampled monotone assignments
        let mut tries = 0;
        while out.len() < max && tries < max * 4 && total > 0 {
            tries += 1;
            let n_ticks = 1 + ch.below(total + 1);
            let assign: Vec<Vec<usize>> = inputs
                .iter()
                .map(|items| {
                    let mut ts: Vec<usize> = (0..items.len()).map(|_| ch.below(n_ticks)).collect();
                    ts.sort();
                    ts
                })
                .collect();
            push(from_assignment(inputs, sing, &assign), &mut out);
        }
    }
    out.truncate(max.max(1));
    out
}

/// All interleavings of the items of different keys that keep each key's subsequence (items are
/// `[k, v]` pairs). Bounded by `max` (the identity interleaving comes first).
pub fn key_interleavings(items: &[Value], max: usize) -> Vec<Vec<Value>> {
    // group by key in order of first appearance
    let mut keys: Vec<String> = vec![];
    let mut groups: Vec<Vec<Value>> = vec![];
    for it in items {
        let k = it[0].to_string();
        if let Some(p) = keys.iter().position(|x| *x == k) {
            groups[p].push(it.clone());
        } else {
            keys.push(k);
            groups.push(vec![it.clone()]);
        }
    }
    let mut out = vec![items.to_vec()];
    fn rec(groups: &[Vec<Value>], pos: &mut Vec<usize>, cur: &mut Vec<Value>, out: &mut Vec<Vec<Value>>, max: usize, total: usize) {
        if out.len() >= max {
            return;
        }
        if cur.len() == total {
            if !out.contains(cur) {
                out.push(cur.clone());
            }
            return;
        }
        for g in 0..groups.len() {
            if pos[g] < groups[g].len() {
                cur.push(groups[g][pos[g]].clone());
                pos[g] += 1;
                rec(groups, pos, cur, out, max, total);
                pos[g] -= 1;
                cur.pop();
            }
        }
    }
    let mut pos = vec![0; groups.len()];
    let mut cur = vec![];
    rec(&groups, &mut pos, &mut cur, &mut out, max, items.len());
    out
}

/// All permutations of a list (n <= 5 expected), identity first.
pub fn permutations(items: &[Value], max: usize) -> Vec<Vec<Value>> {
    let mut out = vec![items.to_vec()];
    let n = items.len();
    let mut idx: Vec<usize> = (0..n).collect();
    // Heap's algorithm, iterative
    let mut c = vec![0usize; n];
    let mut i = 0;
    while i < n {
        if c[i] < i {
            if i % 2 == 0 {
                idx.swap(0, i);
            } else {
                idx.swap(c[i], i);
            }
            let perm: Vec<Value> = idx.iter().map(|&j| items[j].clone()).collect();
            if !out.contains(&perm) {
                out.push(perm);
            }
            if out.len() >= max {
                break;
            }
            c[i] += 1;
            i = 0;
        } else {
            c[i] = 0;
            i += 1;
        }
    }
    out
}

/// Stuttering duplications: each item repeated 1 or 2 times adjacently; identity first.
pub fn stutterings(items: &[Value], max: usize) -> Vec<Vec<Value>> {
    let n = items.len();
    let mut out = vec![];
    for mask in 0..(1u32 << n) {
        let mut v = vec![];
        for (i, it) in items.iter().enumerate() {
            v.push(it.clone());
            if mask & (1 << i) != 0 {
                v.push(it.clone());
            }
        }
        out.push(v);
        if out.len() >= max {
            break;
        }
    }
    out
}
