mod batch;
mod corpus;
mod eval;
mod gen;
mod net;
mod oracle;
mod sched;
mod spec;
mod ty;

use std::collections::BTreeMap;

use vcommon::{Args, Ctx};

use batch::Stage;
use eval::{Case, Engine};
use sched::Choices;
use spec::*;

struct Pool {
    corpus: Vec<corpus::CorpusProg>,
    refs: oracle::Refs,
}

fn pool() -> Pool {
    let corpus = corpus::corpus();
    let mut refs = oracle::Refs::new();
    for p in &corpus {
        refs.insert(p.spec.name.clone(), p.refs.clone());
    }
    Pool { corpus, refs }
}

/// Generated pools are a function of (seed, mode, tier) only, so that C28 / C29 / C33 runs with
/// the same seed share one compiled batch (slot `gen-safe`), and C30 uses `gen-tick`.
fn gen_pool(ctx: &Ctx, mode: gen::Mode) -> Vec<ProgSpec> {
    let (tag, prefix, n) = match mode {
        gen::Mode::Safe => ("pool-safe", "gs", ctx.tier().pick(30, 300)),
        gen::Mode::Tick => ("pool-tick", "gt", ctx.tier().pick(24, 200)),
        gen::Mode::Wild => ("pool-wild", "gw", ctx.tier().pick(30, 300)),
    };
    // seed_for mixes in the property id; the pool must not depend on it
    let seed = ctx.args.seed ^ vcommon::fnv(tag);
    let mut ch = Choices::new(seed);
    let mut progs = gen::generate(&mut ch, mode, prefix, n, 8);
    for p in progs.iter_mut() {
        gen::mark_keyed_inputs(p);
    }
    progs
}

const CHUNK: usize = 50;

/// Accounting of generator bugs (stage-1 / glue failures): excluded + counted, inconclusive above 5 %.
#[derive(Default)]
struct GenStats {
    generated: u64,
    stage1: u64,
    other: BTreeMap<String, u64>,
}

impl GenStats {
    fn absorb(&mut self, eng: &Engine, slot: &str, progs: &[ProgSpec]) {
        let Some(rep) = eng.reports.get(slot) else { return };
        for p in progs {
            self.generated += 1;
            for a in &p.traits.avoided {
                *self.other.entry(format!("avoided-by-construction:{a}")).or_default() += 1;
            }
            if let Some(f) = rep.failed.get(&p.name) {
                match f.stage {
                    Stage::Stage1 | Stage::Glue => self.stage1 += 1,
                    _ => *self.other.entry(format!("{:?}", f.stage)).or_default() += 1,
                }
            }
        }
    }
    fn finish(&self, ctx: &mut Ctx) {
        ctx.extra.insert(
            "generator".into(),
            serde_json::json!({"generated": self.generated, "stage1_failures": self.stage1, "later_stage_failures": self.other}),
        );
        if self.stage1 > 0 {
            ctx.count_excluded("generator-bug(stage1)", self.stage1);
        }
        for (k, v) in &self.other {
            if k.starts_with("avoided-by-construction:") {
                ctx.count_excluded(k, *v);
            } else {
                ctx.count_excluded(&format!("not-compiled:{k}"), *v);
            }
        }
        if self.generated > 0 && self.stage1 * 20 > self.generated {
            ctx.inconclusive(format!(
                "{} of {} generated programs failed stage 1 (type-checking of my own source): above 5 %",
                self.stage1, self.generated
            ));
        }
    }
}

/// Run `make_cases` over the corpus programs and over the generated pool (in chunks).
fn drive(
    ctx: &mut Ctx,
    eng: &mut Engine,
    sub: &str,
    corpus_cases: Vec<Case>,
    gen_progs: Vec<ProgSpec>,
    slot: &str,
    make_cases: &mut dyn FnMut(&ProgSpec) -> Vec<Case>,
    oracle: &eval::Oracle<'_>,
) {
    let mut stats = GenStats::default();
    if !corpus_cases.is_empty() || ctx.is_replay() {
        eval::run_cases(ctx, eng, sub, corpus_cases, slot, oracle);
    }
    if ctx.is_replay() {
        eval::run_cases(ctx, eng, &format!("{sub}-generated"), vec![], slot, oracle);
        return;
    }
    let n_chunks = gen_progs.chunks(CHUNK).count();
    for (ci, chunk) in gen_progs.chunks(CHUNK).enumerate() {
        let mut cases = vec![];
        for p in chunk {
            cases.extend(make_cases(p));
        }
        // one slot per chunk (thorough tier), so that checks sharing a pool reuse each other's builds
        let slot_c = if n_chunks > 1 { format!("{slot}-t{ci}") } else { slot.to_string() };
        // make sure the whole chunk is built even if some programs produced no case
        eng.build_slot(&slot_c, chunk);
        stats.absorb(eng, &slot_c, chunk);
        eval::run_cases(ctx, eng, &format!("{sub}-generated"), cases, &slot_c, oracle);
    }
    stats.finish(ctx);
}

fn partition_cases(p: &ProgSpec, ch: &mut Choices, k: usize, max_sched: usize) -> Vec<Case> {
    let mut out = vec![];
    for _ in 0..k {
        let (inputs, sing) = sched::gen_inputs(p, ch, 5);
        let schedules = sched::partitions(&inputs, &sing, ch, max_sched);
        if schedules.len() < 2 {
            continue;
        }
        out.push(Case { prog: p.clone(), schedules, notes: vec![] });
    }
    out
}

fn c28(ctx: &mut Ctx, eng: &mut Engine, pool: &Pool) {
    ctx.rule = "corpus (hand-written safe top-level programs modelled on hydro_test / doctests) and generated safe-mode programs (random typed compositions of top-level operators, 2..9 operators, <=3 inputs, shared subexpressions, bounded sources), compiled through generate_embedded; per program several random input contents (<=5 items per input, colliding domain); per input content every composition into ticks (single input; plus empty-tick variants) or structured + sampled monotone tick assignments (several inputs), <=64 schedules; oracle: eventual output content (sequence / multiset / per-key sequences / settled snapshot) equals the single-tick run. Non-trivial: program has a top-level stateful operator and a compared schedule spreads the input over >=2 ticks; distinct by (program, input content).".into();
    ctx.assume("terminal observation adapters (assume_ordering / entries_partially_ordered / snapshot) are the only nondet! in safe programs; their nondeterminism is neutralised by comparing multisets / per-key subsequences / settled values");
    ctx.assume("'all inputs processed' = trailing empty ticks until the stream outputs were silent for two consecutive ticks (>=3, <=14 extra ticks) and snapshots equal in the last two ticks; runs that do not settle are excluded and counted, never violations");
    let mut ch = Choices::new(ctx.seed_for("c28-inputs"));
    let k = ctx.tier().pick(3, 8);
    let mut cases = vec![];
    for cp in &pool.corpus {
        if cp.spec.traits.safe {
            cases.extend(partition_cases(&cp.spec, &mut ch, k, 64));
        }
    }
    let gen_progs = gen_pool(ctx, gen::Mode::Safe);
    ctx.floor = 30;
    let kg = ctx.tier().pick(3, 4);
    drive(ctx, eng, "partitions", cases, gen_progs, "gen-safe", &mut |p| partition_cases(p, &mut ch, kg, 48), &oracle::c28);
}

fn order_cases(p: &ProgSpec, ch: &mut Choices, k: usize) -> Vec<Case> {
    let mut cases = vec![];
    if !p.outputs.iter().any(|o| matches!(o.kind, OutKind::Seq | OutKind::KeyedSeq)) {
        return cases;
    }
    // cross-key interleavings are admissible only if no totally ordered output exists
    let keyed_inputs: Vec<usize> = if p.outputs.iter().any(|o| o.kind == OutKind::Seq) {
        vec![]
    } else {
        p.inputs.iter().enumerate().filter(|(_, i)| i.keyed).map(|(i, _)| i).collect()
    };
    for _ in 0..k {
        let (inputs, sing) = sched::gen_inputs(p, ch, 6);
        let mut schedules = sched::partitions(&inputs, &sing, ch, 24);
        let mut notes: Vec<String> = schedules.iter().map(|_| "partition".to_string()).collect();
        for &ki in &keyed_inputs {
            let inter = sched::key_interleavings(&inputs[ki], 12);
            for alt in inter.into_iter().skip(1) {
                let mut ins = inputs.clone();
                ins[ki] = alt;
                let ps = sched::partitions(&ins, &sing, ch, 40);
                let pick = [0usize, ps.len() / 2, ps.len() - 1];
                let mut seen = std::collections::BTreeSet::new();
                for i in pick {
                    if seen.insert(i) {
                        schedules.push(ps[i].clone());
                        notes.push("interleaving".into());
                    }
                }
            }
        }
        cases.push(Case { prog: p.clone(), schedules, notes });
    }
    cases
}

fn c29(ctx: &mut Ctx, eng: &mut Engine, pool: &Pool) {
    ctx.rule = "programs with TotalOrder outputs or keyed streams with ordered values (corpus + generated safe-mode pool); presentations of the same input: tick partitions (as C28) and, for inputs consumed only as keyed streams, cross-key interleavings that keep each key's subsequence (all for <=6 items, capped at 12) each again partitioned into ticks; oracle: ordered outputs are identical under every partition and (corpus) equal the reference sequence computed by plain iterator semantics on the concatenated input; per-key subsequences are identical under every partition and interleaving and (corpus) equal the per-key reference. Non-trivial: >=2 keys with >=2 values each compared under >=2 interleavings, or an ordered output with >=3 items under >=3 partitions.".into();
    ctx.assume("order inside the group of matches of one left element of a join / cross product with a bounded side is not fixed by the docs: the corpus reference compares such outputs as a sequence of groups");
    ctx.assume("generated programs have no hand-written reference: for them the ordered output of the single-tick run in the original input order is the reference sequence");
    let mut ch = Choices::new(ctx.seed_for("c29-inputs"));
    let k = ctx.tier().pick(3, 8);
    let mut cases = vec![];
    for cp in &pool.corpus {
        // reproducers of confirmed C28 findings (k_*) are judged by C28 under their own signatures
        if cp.spec.traits.safe && !cp.spec.traits.classes.iter().any(|c| c == "known-finding") {
            cases.extend(order_cases(&cp.spec, &mut ch, k));
        }
    }
    let gen_progs = gen_pool(ctx, gen::Mode::Safe);
    ctx.floor = 15;
    let kg = ctx.tier().pick(2, 3);
    let refs = &pool.refs;
    drive(ctx, eng, "order", cases, gen_progs, "gen-safe", &mut |p| order_cases(p, &mut ch, kg), &oracle::c29(refs));
}

fn tick_history(p: &ProgSpec, ch: &mut Choices, max_ticks: usize) -> Schedule {
    let n_ticks = 3 + ch.below(max_ticks - 2);
    let mut inputs = vec![];
    for inp in &p.inputs {
        let mut ticks = vec![];
        for _ in 0..n_ticks {
            let n = match ch.below(6) {
                0 | 1 => 0,
                2 => 1,
                3 => 2,
                4 => 3,
                _ => 4,
            };
            ticks.push((0..n).map(|_| inp.ty.value(&mut || ch.next())).collect());
        }
        inputs.push(ticks);
    }
    let sing = p.sing_inputs.iter().map(|s| s.ty.value(&mut || ch.next())).collect();
    Schedule { inputs, sing }
}

fn window_cases(p: &ProgSpec, ch: &mut Choices, k: usize) -> Vec<Case> {
    let d = p.outputs.iter().map(|o| o.delay).max().unwrap_or(0) as usize;
    let mut out = vec![];
    for _ in 0..k {
        let s = tick_history(p, ch, 6);
        let n = s.n_ticks() + 3; // the runner adds 3 trailing empty ticks
        let mut schedules = vec![s.clone()];
        let mut notes = vec!["history".to_string()];
        for t in 0..n {
            let (w, idx) = oracle::window(&s, t, d);
            schedules.push(w);
            notes.push(format!("window:{t}:{idx}"));
        }
        if p.outputs.iter().any(|o| o.concat) {
            let flat: Vec<Vec<serde_json::Value>> = (0..s.inputs.len()).map(|i| s.flat(i)).collect();
            schedules.push(sched::single_tick(&flat, &s.sing));
            notes.push("single-batch".into());
        }
        out.push(Case { prog: p.clone(), schedules, notes });
    }
    out
}

fn c30(ctx: &mut Ctx, eng: &mut Engine, pool: &Pool) {
    ctx.rule = "tick programs: (corpus) input.batch(&tick) -> bounded-collection operators -> all_ticks, defer_tick, tick cycles, across_ticks, optional_first_tick, checked per tick against a hand-written batch reference (plain iterator semantics on the tick's batch and on state explicitly carried from the previous tick); (generated) random typed compositions of tick-scoped operators with defer_tick, checked without a model by window locality (tick t's output equals the last tick of a fresh run that sees only the batches t-d..t, d = defer depth) and by the defer shift (an output that is defer_tick() of another output shows that output's previous tick). Histories: 3..7 ticks, batch sizes 0..4 from a colliding domain, plus 3 forced trailing empty ticks. Non-trivial: >=3 ticks with different batch sizes including an empty one, program with a cycle or a defer.".into();
    ctx.assume("the harness drives run_tick() once per schedule tick (an empty tick still runs when the driver ticks)");
    let mut ch = Choices::new(ctx.seed_for("c30-histories"));
    let k = ctx.tier().pick(12, 50);
    let mut cases = vec![];
    for cp in &pool.corpus {
        let p = &cp.spec;
        if !p.traits.tick_program {
            continue;
        }
        for _ in 0..k {
            cases.push(Case { prog: p.clone(), schedules: vec![tick_history(p, &mut ch, 7)], notes: vec![] });
        }
    }
    ctx.floor = 30;
    let refs = &pool.refs;
    {
        let o = oracle::c30(refs);
        eval::run_cases(ctx, eng, "per-tick", cases, "gen-tick", &o);
    }
    let gen_progs = gen_pool(ctx, gen::Mode::Tick);
    let kg = ctx.tier().pick(3, 4);
    drive(ctx, eng, "window", vec![], gen_progs, "gen-tick", &mut |p| window_cases(p, &mut ch, kg), &oracle::c30_gen);
}

fn history_cases(p: &ProgSpec, ch: &mut Choices, k: usize) -> Vec<Case> {
    let mut cases = vec![];
    if !p.outputs.iter().any(|o| o.promise.is_some()) {
        return cases;
    }
    for _ in 0..k {
        let mut s = tick_history(p, ch, 8);
        if s.n_ticks() < 4 {
            for i in s.inputs.iter_mut() {
                i.push(vec![]);
            }
        }
        cases.push(Case { prog: p.clone(), schedules: vec![s], notes: vec![] });
    }
    cases
}

fn c33(ctx: &mut Ctx, eng: &mut Engine, pool: &Pool) {
    ctx.rule = "programs producing collections with a type promise (Singleton<_,_,Monotonic> from count; KeyedSingleton with MonotonicKeys / MonotonicValue from keyed fold / value_counts; BoundedValue from keyed first), from the corpus and from the generated safe-mode pool (random upstream pipelines ending in such an aggregate), observed by a per-tick snapshot output over 4..8 ticks of random input; oracle: history invariant over consecutive snapshots (monotone singleton never decreases; keys never disappear; monotone values never decrease; a bounded value is emitted once per key). Non-trivial: the collection changed in >=2 ticks.".into();
    let mut ch = Choices::new(ctx.seed_for("c33-histories"));
    let k = ctx.tier().pick(12, 50);
    let mut cases = vec![];
    for cp in &pool.corpus {
        cases.extend(history_cases(&cp.spec, &mut ch, k));
    }
    let gen_progs = gen_pool(ctx, gen::Mode::Safe);
    ctx.floor = 30;
    let kg = ctx.tier().pick(6, 8);
    drive(ctx, eng, "history", cases, gen_progs, "gen-safe", &mut |p| history_cases(p, &mut ch, kg), &oracle::c33);
}

/// An abstract input with >= 3 distinct values and >= 1 duplicate where the length allows.
fn rich_items(ty: &ty::Ty, ch: &mut Choices, n: usize) -> Vec<serde_json::Value> {
    for _ in 0..50 {
        let items: Vec<serde_json::Value> = (0..n).map(|_| ty.value(&mut || ch.next())).collect();
        let ms = ty::multiset(&items);
        let mut d = ms.clone();
        d.dedup();
        if n < 4 || (d.len() >= 3 && d.len() < ms.len()) {
            return items;
        }
    }
    (0..n).map(|_| ty.value(&mut || ch.next())).collect()
}

fn presentations(adv: corpus::Adv, items: &[serde_json::Value], ch: &mut Choices, max: usize) -> Vec<(String, Vec<serde_json::Value>)> {
    use corpus::Adv;
    let mut out: Vec<(String, Vec<serde_json::Value>)> = vec![("canonical".into(), items.to_vec())];
    match adv {
        Adv::Fixed => {}
        Adv::Perm => {
            for p in sched::permutations(items, max).into_iter().skip(1) {
                out.push(("perm".into(), p));
            }
        }
        Adv::Stutter => {
            for p in sched::stutterings(items, max).into_iter().skip(1) {
                out.push(("stutter".into(), p));
            }
        }
        Adv::PermDup => {
            let perms = sched::permutations(items, 120);
            for (i, p) in perms.iter().enumerate().skip(1) {
                if out.len() >= max / 2 {
                    break;
                }
                if perms.len() <= max / 2 || i % (perms.len() / (max / 2).max(1)).max(1) == 0 {
                    out.push(("perm".into(), p.clone()));
                }
            }
            // duplicate random items of random permutations (arbitrary position)
            while out.len() < max {
                let base = perms[ch.below(perms.len())].clone();
                let mut v = base.clone();
                let dups = 1 + ch.below(2);
                for _ in 0..dups {
                    if v.is_empty() {
                        break;
                    }
                    let it = v[ch.below(v.len())].clone();
                    let pos = ch.below(v.len() + 1);
                    v.insert(pos, it);
                }
                if v.len() != base.len() {
                    out.push(("permdup".into(), v));
                } else {
                    break;
                }
            }
        }
        Adv::KeyInterleave => {
            for p in sched::key_interleavings(items, max).into_iter().skip(1) {
                out.push(("interleave".into(), p));
            }
        }
    }
    out
}

fn c32(ctx: &mut Ctx, eng: &mut Engine, pool: &Pool) {
    ctx.rule = "one micro-program per trusted call site (assume_ordering_trusted / assume_retries_trusted / _trusted_bounded: stream max, min, count, first, last, is_empty, repeat_with_keys, weaken/make_* no-ops, keyed value_counts and weakening, keyed-singleton into_singleton / key_count / get_max_key), each at top level (eventual value) and inside a tick (per-batch value); the input is weakened through the safe weaken_* calls and the harness plays the adversary the weakened type admits: all permutations (n<=5) for NoOrder, stuttering duplication (each item 1-2 times adjacently, all masks) for TotalOrder+AtLeastOnce, permutations plus arbitrary duplications for NoOrder+AtLeastOnce, all cross-key interleavings for keyed inputs; top-level presentations additionally split into ticks. Oracle: every admissible presentation gives the same result, equal to the obvious reference. Non-trivial: input with >=3 distinct values and >=1 duplicate under >=2 presentations.".into();
    ctx.assume("admissible duplication for at-least-once inputs: re-delivery of an element (adjacent for ordered streams), per docs 'duplicates may occur, but messages will not be dropped'");
    ctx.assume("intermediate values of unbounded max/min are not compared, only settled values");
    let mut ch = Choices::new(ctx.seed_for("c32-inputs"));
    let k = ctx.tier().pick(4, 24);
    let max_pres = ctx.tier().pick(60, 130);
    let mut cases = vec![];
    for cp in &pool.corpus {
        if cp.adv.is_empty() {
            continue;
        }
        let p = &cp.spec;
        for round in 0..k {
            let n = if round == 0 { 5 } else { 3 + ch.below(3) };
            let items: Vec<Vec<serde_json::Value>> = p.inputs.iter().map(|i| rich_items(&i.ty, &mut ch, n)).collect();
            // vary one input at a time (each one with a non-fixed adversary in turn)
            let mut varied: Vec<usize> = (0..cp.adv.len()).filter(|i| cp.adv[*i] != corpus::Adv::Fixed).collect();
            if varied.is_empty() {
                varied.push(0);
            }
            for vi in varied {
            let pres = presentations(cp.adv[vi], &items[vi], &mut ch, max_pres);
            let mut schedules = vec![];
            let mut notes = vec![];
            for (i, (label, alt)) in pres.iter().enumerate() {
                let mut ins = items.clone();
                ins[vi] = alt.clone();
                if p.traits.tick_program {
                    schedules.push(sched::single_tick(&ins, &[]));
                    notes.push(format!("{label}:single-batch"));
                } else {
                    schedules.push(sched::single_tick(&ins, &[]));
                    notes.push(format!("{label}:single-tick"));
                    // every item of every input in its own tick: a retry / duplicate arrives in
                    // a later tick than the original
                    let assign: Vec<Vec<usize>> = ins.iter().map(|x| (0..x.len()).collect()).collect();
                    if ins.iter().any(|x| x.len() >= 2) {
                        schedules.push(sched::from_assignment(&ins, &[], &assign));
                        notes.push(format!("{label}:one-item-per-tick"));
                    }
                    if i % 3 == 0 {
                        let ps = sched::partitions(&ins, &[], &mut ch, 12);
                        let pick = ps[ps.len() - 1].clone();
                        schedules.push(pick);
                        notes.push(format!("{label}:split"));
                    }
                }
            }
            // partitions of the canonical presentation are tagged "partition" (order-preserving)
            if cp.adv[vi] == corpus::Adv::Fixed {
                let ps = sched::partitions(&items, &[], &mut ch, 32);
                for s in ps.into_iter().skip(1) {
                    schedules.push(s);
                    notes.push("partition".into());
                }
            }
            cases.push(Case { prog: p.clone(), schedules, notes });
            }
        }
    }
    ctx.floor = 20;
    let refs = &pool.refs;
    let o = oracle::c32(refs);
    eval::run_cases(ctx, eng, "trusted-sites", cases, "gen-safe", &o);
}

fn c35(ctx: &mut Ctx, eng: &mut Engine) {
    ctx.rule = "random nested payload values (integers at extremes, empty / non-ASCII strings, Vec, Option, tuples, nested enum / struct with serde derives, unit) and random member ids (u32 extremes, 1..4 members) pushed through topologies compiled once with the embedded backend: o2o send, o2m demux, o2m broadcast, m2o send, m2m demux, each with bincode (and embedded) serialization; the harness is the network between the sender's generated sink closure and the receiver's generated source stream. Oracle: receiver output == sender input (sequence per channel); demuxed payloads appear only on the addressed member's wire and the receiver sees the sender's member id; MemberId -> tagless -> MemberId and raw-id / bincode round trips are the identity. Non-trivial: nested payload with a variable-length part and >=2 members (o2o: any nested payload).".into();
    ctx.assume("the transport delivers frames per channel in order and tags m2o / m2m frames with the sending member (as the repo's own embedded tests do)");
    let mut ch = Choices::new(ctx.seed_for("c35-values"));
    let per_topo = ctx.tier().pick(28, 600);
    let cases = net::cases(&mut ch, per_topo, 12);
    let values: usize = cases.iter().map(|c| c.schedules[0].inputs[0][0].len()).sum();
    ctx.extra.insert("values".into(), serde_json::json!(values));
    ctx.floor = 50;
    eval::run_cases(ctx, eng, "round-trip", cases, "gen-safe", &net::oracle);
}

/// Exact, stable signature of a code-generation failure (stage + normalised message).
fn c41_signature(f: &batch::Failure) -> String {
    let stage = format!("{:?}", f.stage);
    let msg = f.msg.clone();
    let lines: Vec<&str> = msg.lines().collect();
    let first = lines.first().cloned().unwrap_or("");
    if first.contains("assertion `left == right` failed") {
        let grab = |l: &str| -> String {
            l.split("bound: ").nth(1).and_then(|r| r.split(|c: char| !c.is_alphanumeric()).next()).unwrap_or("?").to_string()
        };
        let kind_of = |l: &str| -> String { l.trim().split(|c: char| c == ':' ).nth(1).unwrap_or("").trim().split(' ').next().unwrap_or("").to_string() };
        let left = lines.iter().find(|l| l.trim_start().starts_with("left:")).cloned().unwrap_or("");
        let right = lines.iter().find(|l| l.trim_start().starts_with("right:")).cloned().unwrap_or("");
        return format!(
            "c41/{stage}/node-metadata-mismatch(left={} bound={},right={} bound={})",
            kind_of(left),
            grab(left),
            kind_of(right),
            grab(right)
        );
    }
    let mut out = String::new();
    let mut last_hash = false;
    for c in first.chars().take(110) {
        if c.is_ascii_digit() {
            if !last_hash {
                out.push('#');
                last_hash = true;
            }
        } else {
            out.push(c);
            last_hash = false;
        }
    }
    format!("c41/{stage}/{out}")
}

fn c41_judge(p: &ProgSpec, failure: Option<batch::Failure>, obs: &mut vcommon::Obs) -> Result<(), vcommon::Fail> {
    for c in &p.traits.classes {
        obs.class(c.clone());
    }
    let has_cycle_or_net = p.traits.cycle_or_defer || p.traits.classes.iter().any(|c| c.starts_with("net-") || c == "forward_ref" || c.starts_with("tick-cycle"));
    obs.nontrivial(has_cycle_or_net && p.traits.shared);
    match failure {
        None => Ok(()),
        Some(f) => match f.stage {
            Stage::Stage1 | Stage::Glue => {
                obs.excluded("generator-bug(stage1)");
                Ok(())
            }
            _ => Err(vcommon::Fail::new(
                c41_signature(&f),
                format!(
                    "well-typed Hydro program {} (stage 1 passed) fails in {:?}:\n{}\nsource:\n{}",
                    p.name,
                    f.stage,
                    f.msg,
                    p.src.clone().unwrap_or_else(|| "templates/corpus.rs".into())
                ),
            )),
        },
    }
}

fn c41(ctx: &mut Ctx, eng: &mut Engine, pool: &Pool) {
    ctx.rule = "every program of the corpus and of three generated pools (safe-mode, tick-mode and the unrestricted 'wild' generator: top-level and tick operators, nondet APIs, batch / snapshot / all_ticks / latest transitions, tick cycles and forward references that are always completed, tee'd subexpressions feeding both a tick and top-level state, networks between two processes and a cluster with bincode / embedded serialization, sliced!, atomic, by_ref handles) is taken through stage 1 (rustc on my emitted source: failures are generator bugs, excluded and counted) and then FlowBuilder finalisation, emit, DFIR parsing, partition_graph, as_code (generate_embedded, per location, wrapped in catch_unwind) and rustc on the generated code; oracle: after stage 1 every later stage succeeds. Non-trivial: program with a tick cycle / defer / forward reference / network and a shared subexpression.".into();
    ctx.assume("the simulator builder (flow.sim().compiled()) belongs to engine sim and is not exercised here");
    if ctx.is_replay() {
        let cell = std::cell::RefCell::new(&mut *eng);
        ctx.check_all("compile", Vec::<ProgSpec>::new(), |p: &ProgSpec, obs| {
            let mut e = cell.borrow_mut();
            if p.is_corpus() {
                let specs = e.corpus_specs.clone();
                e.build_slot("corpus", &specs);
            } else {
                e.build_slot("replay", std::slice::from_ref(p));
            }
            let f = e.failure_of(&p.name);
            c41_judge(p, f, obs)
        });
        return;
    }
    let mut stats = GenStats::default();
    let mut judge_all = |ctx: &mut Ctx, eng: &Engine, progs: &[ProgSpec]| {
        for p in progs {
            let mut obs = vcommon::Obs::default();
            match c41_judge(p, eng.failure_of(&p.name), &mut obs) {
                Ok(()) => {
                    let h = vcommon::fnv(&serde_json::to_string(p).unwrap());
                    ctx.record("compile", h, &obs, || serde_json::json!({"program": p.name, "classes": p.traits.classes, "src": p.src}));
                }
                Err(f) => ctx.report("compile", &f, serde_json::to_value(p).unwrap()),
            }
        }
    };
    // corpus (+ network topologies)
    let specs = eng.corpus_specs.clone();
    eng.build_slot("corpus", &specs);
    if let Some(i) = eng.reports["corpus"].infra.clone() {
        ctx.inconclusive(format!("corpus: {i}"));
        return;
    }
    judge_all(ctx, eng, &specs);
    for (mode, slot) in [(gen::Mode::Safe, "gen-safe"), (gen::Mode::Tick, "gen-tick"), (gen::Mode::Wild, "gen-wild")] {
        let progs = gen_pool(ctx, mode);
        let n_chunks = progs.chunks(CHUNK).count();
        for (ci, chunk) in progs.chunks(CHUNK).enumerate() {
            let slot_c = if n_chunks > 1 { format!("{slot}-t{ci}") } else { slot.to_string() };
            eng.build_slot(&slot_c, chunk);
            if let Some(i) = eng.reports[&slot_c].infra.clone() {
                ctx.inconclusive(format!("{slot_c}: {i}"));
                return;
            }
            stats.absorb(eng, &slot_c, chunk);
            judge_all(ctx, eng, chunk);
        }
    }
    let _ = pool;
    ctx.floor = 10;
    stats.finish(ctx);
}

fn dev_gen(mode: &str, n: usize, seed: u64) {
    let mut ch = Choices::new(seed);
    let m = match mode {
        "tick" => gen::Mode::Tick,
        "wild" => gen::Mode::Wild,
        _ => gen::Mode::Safe,
    };
    let progs = gen::generate(&mut ch, m, "g", n, 8);
    for p in progs.iter().take(6) {
        println!("{}\n// inputs {:?}\n// outputs {:?}\n", p.src.clone().unwrap(), p.inputs, p.outputs);
    }
    let rep = batch::build("gen-dev", &progs, &[]);
    println!("build: {:.1}s rounds={} ok={} failed={}", rep.build_secs, rep.rounds, rep.ok.len(), rep.failed.len());
    for (n, f) in &rep.failed {
        let src = progs.iter().find(|p| &p.name == n).and_then(|p| p.src.clone()).unwrap_or_default();
        println!("FAILED {n}: {:?}\n{}\n{}", f.stage, f.msg, src);
    }
    if let Some(i) = &rep.infra {
        println!("INFRA: {i}");
    }
}

fn main() {
    let a: Vec<String> = std::env::args().collect();
    if a.get(1).map(|s| s.as_str()) == Some("--warm") {
        // build the corpus batch (incl. the network topologies); a build problem here is reported
        // again (as inconclusive) by the check that needs it, so never fail the engine build on it
        let pool = pool();
        let specs: Vec<ProgSpec> = pool.corpus.iter().map(|p| p.spec.clone()).collect();
        let rep = batch::build("corpus", &specs, &net::specials());
        eprintln!(
            "hydro: corpus batch {} in {:.1}s ({} programs ok, {} not built{})",
            if rep.infra.is_some() { "FAILED" } else { "ready" },
            rep.build_secs,
            rep.ok.len(),
            rep.failed.len(),
            rep.infra.map(|i| format!("; {}", i.lines().next().unwrap_or(""))).unwrap_or_default()
        );
        return;
    }
    if a.get(1).map(|s| s.as_str()) == Some("--dev-gen") {
        dev_gen(&a[2], a[3].parse().unwrap(), a[4].parse().unwrap());
        return;
    }
    let args = Args::parse();
    let mut ctx = Ctx::new(args);
    let pool = pool();
    let mut eng = Engine::new(pool.corpus.iter().map(|p| p.spec.clone()).collect());
    eng.specials = net::specials();
    match ctx.prop().to_string().as_str() {
        "C28" => c28(&mut ctx, &mut eng, &pool),
        "C29" => c29(&mut ctx, &mut eng, &pool),
        "C30" => c30(&mut ctx, &mut eng, &pool),
        "C32" => c32(&mut ctx, &mut eng, &pool),
        "C33" => c33(&mut ctx, &mut eng, &pool),
        "C35" => c35(&mut ctx, &mut eng),
        "C41" => c41(&mut ctx, &mut eng, &pool),
        other => {
            eprintln!("property {other} is not served by engine hydro");
            std::process::exit(2);
        }
    }
    let mut timing = serde_json::Map::new();
    for (slot, rep) in &eng.reports {
        timing.insert(
            slot.clone(),
            serde_json::json!({"build_s": rep.build_secs, "rounds": rep.rounds, "ok": rep.ok.len(),
                "failed": rep.failed.iter().map(|(n, f)| (n.clone(), format!("{:?}", f.stage))).collect::<BTreeMap<_, _>>()}),
        );
    }
    ctx.extra.insert("batches".into(), serde_json::Value::Object(timing));
    ctx.extra.insert("runner".into(), serde_json::json!({"runs": eng.runs, "run_s": eng.run_secs}));
    ctx.finish();
}
