mod batch;
mod corpus;
mod eval;
mod oracle;
mod sched;
mod spec;
mod ty;

use vcommon::{Args, Ctx, Tier};

use eval::{Case, Engine};
use sched::Choices;
use spec::*;

struct Pool {
    corpus: Vec<corpus::CorpusProg>,
    refs: oracle::Refs,
}

fn pool() -> Pool {
    let corpus = corpus::corpus();
    let mut refs = oracle::Refs::new();
    for p in &corpus {
        refs.insert(p.spec.name.clone(), p.refs.clone());
    }
    Pool { corpus, refs }
}

fn dev_build() {
    let c = corpus::corpus();
    let specs: Vec<ProgSpec> = c.iter().map(|p| p.spec.clone()).collect();
    let rep = batch::build("corpus", &specs, &[]);
    println!("build: {:.1}s rounds={} ok={} failed={}", rep.build_secs, rep.rounds, rep.ok.len(), rep.failed.len());
    for (n, f) in &rep.failed {
        println!("FAILED {n}: {:?}\n{}", f.stage, f.msg);
    }
    if let Some(i) = &rep.infra {
        println!("INFRA: {i}");
    }
}

/// C28 cases for one program: `k` random input contents, each with its tick partitions.
fn partition_cases(p: &ProgSpec, ch: &mut Choices, k: usize, max_sched: usize) -> Vec<Case> {
    let mut out = vec![];
    for _ in 0..k {
        let (inputs, sing) = sched::gen_inputs(p, ch, 5);
        let schedules = sched::partitions(&inputs, &sing, ch, max_sched);
        if schedules.len() < 2 {
            continue;
        }
        out.push(Case { prog: p.clone(), schedules, notes: vec![] });
    }
    out
}

fn c28(ctx: &mut Ctx, eng: &mut Engine, pool: &Pool) {
    ctx.rule = "corpus (hand-written safe top-level programs modelled on hydro_test / doctests) and generated safe-mode programs, compiled through generate_embedded; per program several random input contents (<=5 items per input, colliding domain); per input content every composition into ticks (single input, <=6 items; plus empty-tick variants) or structured + sampled monotone tick assignments (several inputs), <=64 schedules; oracle: eventual output content (sequence / multiset / per-key sequences / settled snapshot) equals the single-tick run. Non-trivial: program has a top-level stateful operator and a compared schedule spreads the input over >=2 ticks.".into();
    ctx.assume("terminal observation adapters (assume_ordering / entries_partially_ordered / snapshot) are the only nondet! in safe programs; their nondeterminism is neutralised by comparing multisets / per-key subsequences / settled values");
    ctx.assume("'all inputs processed' = trailing empty ticks until the stream outputs were silent for two consecutive ticks (>=3, <=14 extra ticks); runs that do not settle are excluded and counted, never violations");
    let mut ch = Choices::new(ctx.seed_for("c28-inputs"));
    let k = ctx.tier().pick(3, 10);
    let mut cases = vec![];
    for cp in &pool.corpus {
        if !cp.spec.traits.safe {
            continue;
        }
        cases.extend(partition_cases(&cp.spec, &mut ch, k, 64));
    }
    ctx.floor = 20;
    eval::run_cases(ctx, eng, "partitions", cases, "gen", &oracle::c28);
}

fn c29(ctx: &mut Ctx, eng: &mut Engine, pool: &Pool) {
    ctx.rule = "programs with TotalOrder outputs or keyed streams with ordered values (corpus + generated); presentations of the same input: tick partitions (as C28) and, for keyed inputs, cross-key interleavings that keep each key's subsequence (all for <=6 items, capped) each again partitioned into ticks; oracle: ordered outputs equal the reference sequence (plain iterator semantics on the concatenated input) under every partition; per-key subsequences are identical under every partition and interleaving and equal the per-key reference. Non-trivial: >=2 keys with >=2 values each compared under >=2 interleavings, or an ordered output with >=3 items under >=3 partitions.".into();
    ctx.assume("order inside the group of matches of one left element of a join / cross product with a bounded side is not fixed by the docs: compared as a sequence of groups");
    let mut ch = Choices::new(ctx.seed_for("c29-inputs"));
    let k = ctx.tier().pick(3, 10);
    let mut cases = vec![];
    for cp in &pool.corpus {
        let p = &cp.spec;
        if !p.traits.safe || !p.outputs.iter().any(|o| matches!(o.kind, OutKind::Seq | OutKind::KeyedSeq)) {
            continue;
        }
        let keyed = p.inputs.iter().any(|i| i.keyed) && !p.outputs.iter().any(|o| o.kind == OutKind::Seq);
        for _ in 0..k {
            let (inputs, sing) = sched::gen_inputs(p, &mut ch, 6);
            let mut schedules = sched::partitions(&inputs, &sing, &mut ch, 24);
            let mut notes: Vec<String> = schedules.iter().map(|_| "partition".to_string()).collect();
            if keyed {
                // interleavings of input 0 (the keyed one), each under a few partitions
                let inter = sched::key_interleavings(&inputs[0], 16);
                for alt in inter.into_iter().skip(1) {
                    let mut ins = inputs.clone();
                    ins[0] = alt;
                    let ps = sched::partitions(&ins, &sing, &mut ch, 40);
                    // take the single-tick one and two split ones
                    let pick = [0usize, ps.len() / 2, ps.len() - 1];
                    let mut seen = std::collections::BTreeSet::new();
                    for i in pick {
                        if seen.insert(i) {
                            schedules.push(ps[i].clone());
                            notes.push("interleaving".into());
                        }
                    }
                }
            }
            cases.push(Case { prog: p.clone(), schedules, notes });
        }
    }
    ctx.floor = 10;
    let refs = &pool.refs;
    eval::run_cases(ctx, eng, "order", cases, "gen", &oracle::c29(refs));
}

fn tick_history(p: &ProgSpec, ch: &mut Choices, max_ticks: usize) -> Schedule {
    let n_ticks = 3 + ch.below(max_ticks - 2);
    let mut inputs = vec![];
    for inp in &p.inputs {
        let mut ticks = vec![];
        for _ in 0..n_ticks {
            let n = match ch.below(6) {
                0 | 1 => 0,
                2 => 1,
                3 => 2,
                4 => 3,
                _ => 4,
            };
            ticks.push((0..n).map(|_| inp.ty.value(&mut || ch.next())).collect());
        }
        inputs.push(ticks);
    }
    let sing = p.sing_inputs.iter().map(|s| s.ty.value(&mut || ch.next())).collect();
    Schedule { inputs, sing }
}

fn c30(ctx: &mut Ctx, eng: &mut Engine, pool: &Pool) {
    ctx.rule = "tick programs (input.batch(&tick) -> bounded-collection operators -> all_ticks; defer_tick, tick cycles, across_ticks, optional_first_tick): the batching is given by the schedule; random histories of 3..7 ticks with batch sizes 0..4 (colliding domain) plus 3 forced trailing empty ticks; oracle: every tick's output equals the plain-iterator result on that tick's batch (and on state explicitly carried from the previous tick). Non-trivial: >=3 ticks with different batch sizes including an empty one, program with a cycle or a defer.".into();
    ctx.assume("the harness drives run_tick() once per schedule tick (an empty tick still runs when the driver ticks)");
    let mut ch = Choices::new(ctx.seed_for("c30-histories"));
    let k = ctx.tier().pick(12, 60);
    let mut cases = vec![];
    for cp in &pool.corpus {
        let p = &cp.spec;
        if !p.traits.tick_program {
            continue;
        }
        let schedules: Vec<Schedule> = (0..k).map(|_| tick_history(p, &mut ch, 7)).collect();
        // one case per schedule keeps replay files small and counts histories individually
        for s in schedules {
            cases.push(Case { prog: p.clone(), schedules: vec![s], notes: vec![] });
        }
    }
    ctx.floor = 20;
    let refs = &pool.refs;
    eval::run_cases(ctx, eng, "per-tick", cases, "gen", &oracle::c30(refs));
}

fn c33(ctx: &mut Ctx, eng: &mut Engine, pool: &Pool) {
    ctx.rule = "programs producing collections with a type promise (Singleton<_,_,Monotonic> from count; KeyedSingleton with MonotonicKeys / MonotonicValue from keyed fold / value_counts; BoundedValue from keyed first), observed by a per-tick snapshot output over 4..8 ticks of random input; oracle: history invariant over consecutive snapshots (monotone singleton never decreases; keys never disappear; monotone values never decrease; a bounded value is emitted once per key). Non-trivial: the collection changed in >=2 ticks.".into();
    let mut ch = Choices::new(ctx.seed_for("c33-histories"));
    let k = ctx.tier().pick(12, 60);
    let mut cases = vec![];
    for cp in &pool.corpus {
        let p = &cp.spec;
        if !p.outputs.iter().any(|o| o.promise.is_some()) {
            continue;
        }
        for _ in 0..k {
            let mut s = tick_history(p, &mut ch, 8);
            if s.n_ticks() < 4 {
                for i in s.inputs.iter_mut() {
                    i.push(vec![]);
                }
            }
            cases.push(Case { prog: p.clone(), schedules: vec![s], notes: vec![] });
        }
    }
    ctx.floor = 20;
    eval::run_cases(ctx, eng, "history", cases, "gen", &oracle::c33);
}

fn main() {
    let a: Vec<String> = std::env::args().collect();
    if a.get(1).map(|s| s.as_str()) == Some("--dev-build") {
        dev_build();
        return;
    }
    let args = Args::parse();
    let mut ctx = Ctx::new(args);
    let pool = pool();
    let mut eng = Engine::new(pool.corpus.iter().map(|p| p.spec.clone()).collect());
    let _ = Tier::Quick;
    match ctx.prop().to_string().as_str() {
        "C28" => c28(&mut ctx, &mut eng, &pool),
        "C29" => c29(&mut ctx, &mut eng, &pool),
        "C30" => c30(&mut ctx, &mut eng, &pool),
        "C33" => c33(&mut ctx, &mut eng, &pool),
        other => {
            eprintln!("property {other} is not served by engine hydro");
            std::process::exit(2);
        }
    }
    let mut timing = serde_json::Map::new();
    for (slot, rep) in &eng.reports {
        timing.insert(
            slot.clone(),
            serde_json::json!({"build_s": rep.build_secs, "rounds": rep.rounds, "ok": rep.ok.len(),
                "failed": rep.failed.iter().map(|(n, f)| (n.clone(), format!("{:?}", f.stage))).collect::<std::collections::BTreeMap<_, _>>()}),
        );
    }
    ctx.extra.insert("batches".into(), serde_json::Value::Object(timing));
    ctx.extra.insert("runner".into(), serde_json::json!({"runs": eng.runs, "run_s": eng.run_secs}));
    ctx.finish();
}
