//! Random Hydro program generator (DESIGN §3.4): emits Rust source over the hydro_lang API while
//! tracking the full type state (collection kind, location, boundedness, ordering, retries,
//! element type) as derived from the `impl` blocks in hydro_lang/src/live_collections/**, so that
//! the emitted programs type-check. Closures come from a fixed `q!` menu over i64 / (i64, i64).
use crate::sched::Choices;
use crate::spec::*;
use crate::ty::Ty;

#[derive(Clone, Copy, PartialEq, Eq, Debug)]
pub enum El {
    I,
    P,
}
impl El {
    fn ty(self) -> Ty {
        match self {
            El::I => Ty::I64,
            El::P => Ty::Tup(vec![Ty::I64, Ty::I64]),
        }
    }
    fn rust(self) -> &'static str {
        match self {
            El::I => "i64",
            El::P => "(i64, i64)",
        }
    }
}

#[derive(Clone, Copy, PartialEq, Eq, Debug)]
pub enum Loc {
    Top,
    Tick,
    /// second process (wild mode: reached through the network)
    P2,
    /// cluster (wild mode: reached through broadcast)
    Clu,
}

impl Loc {
    fn handle(self) -> &'static str {
        match self {
            Loc::Top => "p",
            Loc::Tick => "tick",
            Loc::P2 => "p2",
            Loc::Clu => "c",
        }
    }
}

#[derive(Clone, Copy, PartialEq, Eq, Debug)]
pub enum SB {
    Bounded,
    Unbounded,
    Monotonic,
}

#[derive(Clone, Copy, PartialEq, Eq, Debug)]
pub enum KB {
    Bounded,
    Unbounded,
    BoundedValue,
    MonotonicValue,
    MonotonicKeys,
}
impl KB {
    fn value_bounded(self) -> bool {
        matches!(self, KB::Bounded | KB::BoundedValue)
    }
    fn underlying_bounded(self) -> bool {
        matches!(self, KB::Bounded)
    }
}

/// value type of singletons / keyed-singleton values
#[derive(Clone, Copy, PartialEq, Eq, Debug)]
pub enum SV {
    I,
    U,
}
impl SV {
    fn ty(self) -> Ty {
        match self {
            SV::I => Ty::I64,
            SV::U => Ty::Usize,
        }
    }
}

#[derive(Clone, Copy, PartialEq, Debug)]
pub enum Kind {
    S { el: El, loc: Loc, bounded: bool, ordered: bool, once: bool },
    KS { loc: Loc, bounded: bool, ordered: bool, once: bool },
    Sg { v: SV, loc: Loc, bound: SB },
    Op { el: El, loc: Loc, bounded: bool },
    KSg { v: SV, loc: Loc, bound: KB },
}

impl Kind {
    fn loc(&self) -> Loc {
        match self {
            Kind::S { loc, .. } | Kind::KS { loc, .. } | Kind::Sg { loc, .. } | Kind::Op { loc, .. } | Kind::KSg { loc, .. } => *loc,
        }
    }
}

#[derive(Clone, Debug)]
struct Var {
    kind: Kind,
    uses: u32,
    /// number of defer_tick applied on the path (for the C30 window oracle)
    delay: u32,
    /// depends on tick-carried state (cycle / across_ticks): no locality oracle
    carried: bool,
    /// operator label (last class label set before the variable was created)
    label: String,
    args: Vec<usize>,
    /// per-item stateless pipeline of a single batched input (tick mode)
    pure: bool,
}

#[derive(Clone, Debug)]
struct Stmt {
    /// result variable index (None for statements without a result)
    res: Option<usize>,
    /// template with `{0}`, `{1}` for argument expressions
    tmpl: String,
    args: Vec<usize>,
}

#[derive(Clone, Copy, PartialEq, Eq, Debug)]
pub enum Mode {
    /// top-level only, no nondet! except terminal observation adapters (C28/C29/C33)
    Safe,
    /// inputs are batched into one tick, bounded operators, defer_tick, all_ticks (C30)
    Tick,
    /// everything, including nondet APIs, cycles and forward references (C41)
    Wild,
}

pub struct Gen<'c> {
    ch: &'c mut Choices,
    mode: Mode,
    vars: Vec<Var>,
    stmts: Vec<Stmt>,
    inputs: Vec<InSpec>,
    sing_inputs: Vec<InSpec>,
    classes: Vec<String>,
    stateful_top: bool,
    cycle_or_defer: bool,
    uses_tick: bool,
    pending_cycles: Vec<(String, Kind)>,
    last_class: String,
    avoided: Vec<String>,
    uses_p2: bool,
    uses_cluster: bool,
    channels: u32,
    no_run: bool,
}

const MAP_II: &[&str] = &[
    "|x: i64| x.wrapping_mul(3).wrapping_add(1)",
    "|x: i64| x.rem_euclid(3)",
    "|x: i64| x / 2",
    "|x: i64| x.wrapping_neg()",
    "|x: i64| x.wrapping_add(7)",
];
const MAP_IP: &[&str] = &["|x: i64| (x.rem_euclid(3), x)", "|x: i64| (x, x.wrapping_add(1))", "|x: i64| (x.rem_euclid(2), x.rem_euclid(5))"];
const MAP_PI: &[&str] = &["|(a, b): (i64, i64)| a.wrapping_add(b)", "|(a, _b): (i64, i64)| a", "|(_a, b): (i64, i64)| b", "|(a, b): (i64, i64)| a.wrapping_mul(10).wrapping_add(b)"];
const MAP_PP: &[&str] = &["|(a, b): (i64, i64)| (b, a)", "|(a, b): (i64, i64)| (b.rem_euclid(2), a)", "|(a, b): (i64, i64)| (a, b.wrapping_add(a))"];
const FILT_I: &[&str] = &["|x: &i64| *x % 2 == 0", "|x: &i64| *x != 1", "|x: &i64| *x < 3"];
const FILT_P: &[&str] = &["|p: &(i64, i64)| p.0 <= p.1", "|p: &(i64, i64)| p.0 != 0", "|p: &(i64, i64)| (p.0 + p.1) % 2 == 0"];
const FMAP_II: &[&str] = &["|x: i64| if x % 2 == 0 { Some(x / 2) } else { None }", "|x: i64| if x > 0 { Some(x.wrapping_sub(1)) } else { None }"];
const FMAP_PI: &[&str] = &["|(a, b): (i64, i64)| if a <= b { Some(b.wrapping_sub(a)) } else { None }"];
const FLAT_II: &[&str] = &["|x: i64| vec![x, x.wrapping_add(10)]", "|x: i64| (0..x.rem_euclid(3)).collect::<Vec<i64>>()"];
const FLAT_IP: &[&str] = &["|x: i64| vec![(x.rem_euclid(2), x), (x.rem_euclid(3), x.wrapping_add(1))]"];
const FOLD_ORD: &[&str] = &["|acc: &mut i64, x: i64| *acc = acc.wrapping_mul(3).wrapping_add(x)", "|acc: &mut i64, x: i64| *acc = acc.wrapping_add(x)"];
const FOLD_COMM: &[&str] = &["|acc: &mut i64, x: i64| *acc = acc.wrapping_add(x)", "|acc: &mut i64, x: i64| *acc = (*acc).max(x)"];
const REDUCE_ORD: &[&str] = &["|acc: &mut i64, x: i64| *acc = acc.wrapping_mul(2).wrapping_add(x)", "|acc: &mut i64, x: i64| *acc = x"];
const REDUCE_COMM: &[&str] = &["|acc: &mut i64, x: i64| *acc = acc.wrapping_add(x)", "|acc: &mut i64, x: i64| *acc = (*acc).min(x)"];
const SCAN_I: &[&str] = &[
    "|acc: &mut i64, x: i64| { *acc = acc.wrapping_add(x); Some(*acc) }",
    "|acc: &mut i64, x: i64| { *acc = acc.wrapping_add(x); if *acc > 9 { None } else { Some(*acc) } }",
    "|acc: &mut i64, x: i64| { let prev = *acc; *acc = x; Some(prev.wrapping_sub(x)) }",
];

impl<'c> Gen<'c> {
    pub fn new(ch: &'c mut Choices, mode: Mode) -> Gen<'c> {
        Gen {
            ch,
            mode,
            vars: vec![],
            stmts: vec![],
            inputs: vec![],
            sing_inputs: vec![],
            classes: vec![],
            stateful_top: false,
            cycle_or_defer: false,
            uses_tick: false,
            pending_cycles: vec![],
            last_class: String::new(),
            avoided: vec![],
            uses_p2: false,
            uses_cluster: false,
            channels: 0,
            no_run: false,
        }
    }

    fn pick<'a>(&mut self, xs: &'a [&'a str]) -> &'a str {
        xs[self.ch.below(xs.len())]
    }

    fn class(&mut self, c: &str) {
        if self.last_class.is_empty() {
            self.last_class = c.to_string();
        }
        if !self.classes.iter().any(|x| x == c) {
            self.classes.push(c.to_string());
        }
    }

    fn new_var(&mut self, kind: Kind, tmpl: String, args: Vec<usize>) -> usize {
        let delay = args.iter().map(|a| self.vars[*a].delay).max().unwrap_or(0);
        let carried = args.iter().any(|a| self.vars[*a].carried);
        for a in &args {
            self.vars[*a].uses += 1;
        }
        let id = self.vars.len();
        let label = if args.is_empty() { "source".to_string() } else { std::mem::take(&mut self.last_class) };
        let pure = !args.is_empty()
            && args.iter().all(|a| self.vars[*a].pure)
            && matches!(label.as_str(), "map" | "filter" | "filter_map" | "flat_map_ordered");
        self.vars.push(Var { kind, uses: 0, delay, carried, label, args: args.clone(), pure });
        self.stmts.push(Stmt { res: Some(id), tmpl, args });
        id
    }

    fn stateful(&mut self, loc: Loc) {
        if loc == Loc::Top {
            self.stateful_top = true;
        }
    }

    /// a random variable satisfying `pred`, biased towards recent ones
    fn find(&mut self, pred: impl Fn(&Kind) -> bool) -> Option<usize> {
        let cands: Vec<usize> = (0..self.vars.len()).filter(|i| pred(&self.vars[*i].kind)).collect();
        if cands.is_empty() {
            return None;
        }
        // prefer unused / recent
        let unused: Vec<usize> = cands.iter().cloned().filter(|i| self.vars[*i].uses == 0).collect();
        if !unused.is_empty() && self.ch.chance(3, 4) {
            return Some(unused[self.ch.below(unused.len())]);
        }
        Some(cands[self.ch.below(cands.len())])
    }

    fn add_input(&mut self, el: El) -> usize {
        let name = format!("in{}", self.inputs.len());
        self.inputs.push(InSpec { name: name.clone(), ty: el.ty(), keyed: false });
        if self.mode == Mode::Tick {
            // tick programs only see the batch (no top-level handle on the input)
            self.uses_tick = true;
            let id = self.new_var(
                Kind::S { el, loc: Loc::Tick, bounded: true, ordered: true, once: true },
                format!("p.embedded_input::<{}>(\"{}\").batch(&tick, nondet!(/** the batch is the schedule */))", el.rust(), name),
                vec![],
            );
            self.vars[id].pure = true;
            id
        } else {
            self.new_var(
                Kind::S { el, loc: Loc::Top, bounded: false, ordered: true, once: true },
                format!("p.embedded_input::<{}>(\"{}\")", el.rust(), name),
                vec![],
            )
        }
    }

    fn add_bounded_source(&mut self, el: El) -> usize {
        self.class("bounded-source");
        let lit = match el {
            El::I => ["vec![1i64, 2, 3]", "vec![0i64, 2]", "vec![4i64, 1, 1, 3]"][self.ch.below(3)],
            El::P => ["vec![(0i64, 5i64), (1, 6), (1, 7)]", "vec![(2i64, 0i64), (0, 1)]"][self.ch.below(2)],
        };
        let loc = if self.mode == Mode::Tick { Loc::Tick } else { Loc::Top };
        let src = loc.handle();
        if loc == Loc::Tick {
            self.uses_tick = true;
        }
        self.new_var(
            Kind::S { el, loc, bounded: true, ordered: true, once: true },
            format!("{src}.source_iter(q!({lit}))"),
            vec![],
        )
    }

    fn add_singleton_source(&mut self) -> usize {
        let loc = if self.mode == Mode::Tick { Loc::Tick } else { Loc::Top };
        if loc == Loc::Top && self.ch.chance(1, 2) {
            let name = format!("s{}", self.sing_inputs.len());
            self.sing_inputs.push(InSpec { name: name.clone(), ty: Ty::I64, keyed: false });
            self.class("singleton-input");
            return self.new_var(
                Kind::Sg { v: SV::I, loc, bound: SB::Bounded },
                format!("p.embedded_singleton_input::<i64>(\"{name}\")"),
                vec![],
            );
        }
        let src = loc.handle();
        if loc == Loc::Tick {
            self.uses_tick = true;
        }
        let lit = ["2i64", "3i64", "100i64"][self.ch.below(3)];
        self.new_var(Kind::Sg { v: SV::I, loc, bound: SB::Bounded }, format!("{src}.singleton(q!({lit}))"), vec![])
    }

    // ---------------------------------------------------------------- operators
    /// Try to add one random operator; returns false if the chosen operator was not applicable.
    fn step(&mut self) -> bool {
        self.last_class.clear();
        if self.mode == Mode::Wild && self.ch.chance(1, 2) {
            return self.wild_step();
        }
        let r = self.ch.below(100);
        match r {
            0..=13 => self.op_map(),
            14..=20 => self.op_filter(),
            21..=24 => self.op_filter_map(),
            25..=29 => self.op_flat_map(),
            30..=33 => self.op_enumerate(),
            34..=38 => self.op_scan(),
            39..=43 => self.op_unique(),
            44..=46 => self.op_limit(),
            47..=53 => self.op_fold_like(),
            54..=60 => self.op_join(),
            61..=63 => self.op_cross_product(),
            64..=66 => self.op_cross_singleton(),
            67..=69 => self.op_anti_join(),
            70..=73 => self.op_chain_merge(),
            74..=75 => self.op_sort(),
            76..=84 => self.op_keyed(),
            85..=89 => self.op_ksingle(),
            90..=94 => self.op_singleton_ops(),
            95..=97 => self.op_weaken(),
            _ => self.op_tick_special(),
        }
    }

    fn op_map(&mut self) -> bool {
        let Some(a) = self.find(|k| matches!(k, Kind::S { .. })) else { return false };
        let Kind::S { el, loc, bounded, ordered, once } = self.vars[a].kind else { unreachable!() };
        let to = if self.ch.chance(1, 2) { El::I } else { El::P };
        let f = match (el, to) {
            (El::I, El::I) => self.pick(MAP_II),
            (El::I, El::P) => self.pick(MAP_IP),
            (El::P, El::I) => self.pick(MAP_PI),
            (El::P, El::P) => self.pick(MAP_PP),
        };
        self.class("map");
        self.new_var(Kind::S { el: to, loc, bounded, ordered, once }, format!("{{0}}.map(q!({f}))"), vec![a]);
        true
    }

    fn op_filter(&mut self) -> bool {
        let Some(a) = self.find(|k| matches!(k, Kind::S { .. })) else { return false };
        let Kind::S { el, .. } = self.vars[a].kind else { unreachable!() };
        let f = match el {
            El::I => self.pick(FILT_I),
            El::P => self.pick(FILT_P),
        };
        self.class("filter");
        let k = self.vars[a].kind;
        if self.ch.chance(1, 5) {
            self.new_var(k, "{0}.inspect(q!(|_x| {}))".into(), vec![a]);
        } else {
            self.new_var(k, format!("{{0}}.filter(q!({f}))"), vec![a]);
        }
        true
    }

    fn op_filter_map(&mut self) -> bool {
        let Some(a) = self.find(|k| matches!(k, Kind::S { .. })) else { return false };
        let Kind::S { el, loc, bounded, ordered, once } = self.vars[a].kind else { unreachable!() };
        let f = match el {
            El::I => self.pick(FMAP_II),
            El::P => self.pick(FMAP_PI),
        };
        self.class("filter_map");
        self.new_var(Kind::S { el: El::I, loc, bounded, ordered, once }, format!("{{0}}.filter_map(q!({f}))"), vec![a]);
        true
    }

    fn op_flat_map(&mut self) -> bool {
        let Some(a) = self.find(|k| matches!(k, Kind::S { el: El::I, .. })) else { return false };
        let Kind::S { loc, bounded, ordered, once, .. } = self.vars[a].kind else { unreachable!() };
        let to_p = self.ch.chance(1, 3);
        let f = if to_p { self.pick(FLAT_IP) } else { self.pick(FLAT_II) };
        let el = if to_p { El::P } else { El::I };
        if self.ch.chance(1, 4) {
            self.class("flat_map_unordered");
            self.new_var(Kind::S { el, loc, bounded, ordered: false, once }, format!("{{0}}.flat_map_unordered(q!({f}))"), vec![a]);
        } else {
            self.class("flat_map_ordered");
            self.new_var(Kind::S { el, loc, bounded, ordered, once }, format!("{{0}}.flat_map_ordered(q!({f}))"), vec![a]);
        }
        true
    }

    /// (prefix, suffix) wrapping a top-level unary stateful operator into an atomic region
    fn atomic_wrap(&mut self, loc: Loc) -> (&'static str, &'static str) {
        if loc == Loc::Top && self.mode != Mode::Tick && self.ch.chance(1, 3) {
            self.class("atomic");
            (".atomic()", ".end_atomic()")
        } else {
            ("", "")
        }
    }

    fn op_enumerate(&mut self) -> bool {
        let Some(a) = self.find(|k| matches!(k, Kind::S { ordered: true, once: true, .. })) else { return false };
        let Kind::S { el, loc, bounded, .. } = self.vars[a].kind else { unreachable!() };
        let f = match el {
            El::I => "|(i, x): (usize, i64)| (i as i64, x)",
            El::P => "|(i, (a, b)): (usize, (i64, i64))| (i as i64, a.wrapping_add(b))",
        };
        self.class("enumerate");
        self.stateful(loc);
        let (pre, post) = self.atomic_wrap(loc);
        self.new_var(
            Kind::S { el: El::P, loc, bounded, ordered: true, once: true },
            format!("{{0}}{pre}.enumerate().map(q!({f})){post}"),
            vec![a],
        );
        true
    }

    fn op_scan(&mut self) -> bool {
        let Some(a) = self.find(|k| matches!(k, Kind::S { el: El::I, ordered: true, once: true, .. })) else { return false };
        let Kind::S { loc, bounded, .. } = self.vars[a].kind else { unreachable!() };
        let f = self.pick(SCAN_I);
        if f.contains("None") {
            self.class("scan-terminate");
        }
        self.class("scan");
        self.stateful(loc);
        let (pre, post) = self.atomic_wrap(loc);
        self.new_var(
            Kind::S { el: El::I, loc, bounded, ordered: true, once: true },
            format!("{{0}}{pre}.scan(q!(|| 0i64), q!({f})){post}"),
            vec![a],
        );
        true
    }

    fn op_unique(&mut self) -> bool {
        let Some(a) = self.find(|k| matches!(k, Kind::S { .. })) else { return false };
        let Kind::S { el, loc, bounded, ordered, .. } = self.vars[a].kind else { unreachable!() };
        self.class("unique");
        self.stateful(loc);
        let (pre, post) = self.atomic_wrap(loc);
        self.new_var(Kind::S { el, loc, bounded, ordered, once: true }, format!("{{0}}{pre}.unique(){post}"), vec![a]);
        true
    }

    fn op_limit(&mut self) -> bool {
        let Some(a) = self.find(|k| matches!(k, Kind::S { ordered: true, once: true, .. })) else { return false };
        let Kind::S { el, loc, bounded, .. } = self.vars[a].kind else { unreachable!() };
        let n = 1 + self.ch.below(3);
        self.class("limit");
        self.stateful(loc);
        let (pre, post) = self.atomic_wrap(loc);
        self.new_var(Kind::S { el, loc, bounded, ordered: true, once: true }, format!("{{0}}{pre}.limit(q!({n}usize)){post}"), vec![a]);
        true
    }

    fn op_fold_like(&mut self) -> bool {
        let Some(a) = self.find(|k| matches!(k, Kind::S { once: true, .. })) else { return false };
        let Kind::S { el, loc, bounded, ordered, .. } = self.vars[a].kind else { unreachable!() };
        let sb = if bounded { SB::Bounded } else { SB::Unbounded };
        // work on an i64 view
        let pre = if el == El::P { format!(".map(q!({}))", self.pick(MAP_PI)) } else { String::new() };
        self.stateful(loc);
        match self.ch.below(8) {
            0 | 1 => {
                self.class("fold");
                let t = if ordered {
                    format!("{{0}}{pre}.fold(q!(|| 0i64), q!({}))", self.pick(FOLD_ORD))
                } else {
                    format!(
                        "{{0}}{pre}.fold(q!(|| 0i64), q!({}, commutative = manual_proof!(/** commutative and associative */)))",
                        self.pick(FOLD_COMM)
                    )
                };
                self.new_var(Kind::Sg { v: SV::I, loc, bound: sb }, t, vec![a]);
            }
            2 => {
                self.class("reduce");
                let t = if ordered {
                    format!("{{0}}{pre}.reduce(q!({}))", self.pick(REDUCE_ORD))
                } else {
                    format!(
                        "{{0}}{pre}.reduce(q!({}, commutative = manual_proof!(/** commutative and associative */)))",
                        self.pick(REDUCE_COMM)
                    )
                };
                self.new_var(Kind::Op { el: El::I, loc, bounded }, t, vec![a]);
            }
            3 => {
                self.class("count");
                let bound = if bounded { SB::Bounded } else { SB::Monotonic };
                self.new_var(Kind::Sg { v: SV::U, loc, bound }, "{0}.count()".into(), vec![a]);
            }
            4 => {
                self.class("max");
                self.new_var(Kind::Op { el, loc, bounded }, "{0}.max()".into(), vec![a]);
            }
            5 => {
                self.class("min");
                self.new_var(Kind::Op { el, loc, bounded }, "{0}.min()".into(), vec![a]);
            }
            6 => {
                if !ordered {
                    return false;
                }
                self.class("first");
                self.new_var(Kind::Op { el, loc, bounded }, "{0}.first()".into(), vec![a]);
            }
            _ => {
                if !ordered {
                    return false;
                }
                self.class("last");
                self.new_var(Kind::Op { el, loc, bounded }, "{0}.last()".into(), vec![a]);
            }
        }
        true
    }

    fn op_join(&mut self) -> bool {
        let Some(a) = self.find(|k| matches!(k, Kind::S { el: El::P, .. })) else { return false };
        let Kind::S { loc, bounded, ordered, once, .. } = self.vars[a].kind else { unreachable!() };
        let Some(b) = self.find(|k| matches!(k, Kind::S { el: El::P, loc: l2, .. } if *l2 == loc)) else { return false };
        let Kind::S { bounded: b2, once: once2, .. } = self.vars[b].kind else { unreachable!() };
        if bounded && !b2 && self.mode == Mode::Safe {
            // confirmed finding (k_bounded_join_unbounded_*): `bounded.join(unbounded)` is typed
            // Bounded; excluded by construction
            self.avoided.push("bounded-join-unbounded".into());
            return false;
        }
        self.class("join");
        if b2 {
            self.class("bounded-side");
        }
        self.stateful(loc);
        let out_ordered = if b2 { ordered } else { false };
        self.new_var(
            Kind::S { el: El::P, loc, bounded, ordered: out_ordered, once: once && once2 },
            "{0}.join({1}).map(q!(|(k, (a, b)): (i64, (i64, i64))| (k, a.wrapping_mul(7).wrapping_add(b))))".into(),
            vec![a, b],
        );
        true
    }

    fn op_cross_product(&mut self) -> bool {
        let Some(a) = self.find(|k| matches!(k, Kind::S { el: El::I, .. })) else { return false };
        let Kind::S { loc, bounded, ordered, once, .. } = self.vars[a].kind else { unreachable!() };
        let Some(b) = self.find(|k| matches!(k, Kind::S { el: El::I, loc: l2, .. } if *l2 == loc)) else { return false };
        let Kind::S { bounded: b2, once: once2, .. } = self.vars[b].kind else { unreachable!() };
        if bounded && !b2 && self.mode == Mode::Safe {
            self.avoided.push("bounded-join-unbounded".into());
            return false;
        }
        self.class("cross_product");
        if b2 {
            self.class("bounded-side");
        }
        self.stateful(loc);
        let out_ordered = if b2 { ordered } else { false };
        self.new_var(
            Kind::S { el: El::P, loc, bounded, ordered: out_ordered, once: once && once2 },
            "{0}.cross_product({1})".into(),
            vec![a, b],
        );
        true
    }

    fn op_cross_singleton(&mut self) -> bool {
        let Some(a) = self.find(|k| matches!(k, Kind::S { el: El::I, .. })) else { return false };
        let Kind::S { loc, bounded, ordered, once, .. } = self.vars[a].kind else { unreachable!() };
        let Some(b) = self.find(|k| match k {
            Kind::Sg { v: SV::I, loc: l2, bound: SB::Bounded } => *l2 == loc,
            Kind::Op { el: El::I, loc: l2, bounded: true } => *l2 == loc,
            _ => false,
        }) else {
            return false;
        };
        self.class("cross_singleton");
        self.stateful(loc);
        self.new_var(Kind::S { el: El::P, loc, bounded, ordered, once }, "{0}.cross_singleton({1})".into(), vec![a, b]);
        true
    }

    fn op_anti_join(&mut self) -> bool {
        // pos: (i64, i64) any boundedness; neg: bounded stream of i64 at the same location
        let Some(a) = self.find(|k| matches!(k, Kind::S { el: El::P, .. })) else { return false };
        let Kind::S { loc, .. } = self.vars[a].kind else { unreachable!() };
        let Some(b) = self.find(|k| matches!(k, Kind::S { el: El::I, loc: l2, bounded: true, .. } if *l2 == loc)) else { return false };
        self.class("anti_join");
        self.stateful(loc);
        let k = self.vars[a].kind;
        self.new_var(k, "{0}.anti_join({1})".into(), vec![a, b]);
        true
    }

    fn op_chain_merge(&mut self) -> bool {
        let Some(a) = self.find(|k| matches!(k, Kind::S { .. })) else { return false };
        let Kind::S { el, loc, bounded, ordered, once } = self.vars[a].kind else { unreachable!() };
        if bounded {
            // chain: self bounded, other any boundedness (same location)
            let Some(b) = self.find(|k| matches!(k, Kind::S { el: e2, loc: l2, .. } if *e2 == el && *l2 == loc)) else { return false };
            let Kind::S { bounded: b2, ordered: o2, once: r2, .. } = self.vars[b].kind else { unreachable!() };
            self.class("chain");
            self.new_var(
                Kind::S { el, loc, bounded: b2, ordered: ordered && o2, once: once && r2 },
                "{0}.chain({1})".into(),
                vec![a, b],
            );
            true
        } else {
            let Some(b) = self.find(|k| matches!(k, Kind::S { el: e2, loc: l2, bounded: false, .. } if *e2 == el && *l2 == loc)) else { return false };
            let Kind::S { once: r2, .. } = self.vars[b].kind else { unreachable!() };
            self.class("merge_unordered");
            self.new_var(
                Kind::S { el, loc, bounded: false, ordered: false, once: once && r2 },
                "{0}.merge_unordered({1})".into(),
                vec![a, b],
            );
            true
        }
    }

    fn op_sort(&mut self) -> bool {
        let Some(a) = self.find(|k| matches!(k, Kind::S { bounded: true, .. })) else { return false };
        let Kind::S { el, loc, once, .. } = self.vars[a].kind else { unreachable!() };
        self.class("sort");
        self.new_var(Kind::S { el, loc, bounded: true, ordered: true, once }, "{0}.sort()".into(), vec![a]);
        true
    }

    fn op_keyed(&mut self) -> bool {
        // either create a keyed stream or operate on one
        let have = self.find(|k| matches!(k, Kind::KS { .. }));
        if have.is_none() || self.ch.chance(1, 4) {
            let Some(a) = self.find(|k| matches!(k, Kind::S { el: El::P, .. })) else { return false };
            let Kind::S { loc, bounded, ordered, once, .. } = self.vars[a].kind else { unreachable!() };
            self.class("keyed");
            self.new_var(Kind::KS { loc, bounded, ordered, once }, "{0}.into_keyed()".into(), vec![a]);
            return true;
        }
        let a = have.unwrap();
        let Kind::KS { loc, bounded, ordered, once } = self.vars[a].kind else { unreachable!() };
        let ks = Kind::KS { loc, bounded, ordered, once };
        match self.ch.below(17) {
            0 => {
                let f = self.pick(MAP_II);
                self.new_var(ks, format!("{{0}}.map(q!({f}))"), vec![a]);
            }
            1 => {
                let f = self.pick(FILT_I);
                self.new_var(ks, format!("{{0}}.filter(q!({f}))"), vec![a]);
            }
            2 => {
                self.new_var(ks, "{0}.map_with_key(q!(|(k, v): (i64, i64)| k.wrapping_mul(10).wrapping_add(v)))".into(), vec![a]);
            }
            3 => {
                if !(ordered && once) {
                    return false;
                }
                let f = self.pick(SCAN_I);
                self.class("keyed-scan");
                self.stateful(loc);
                let (pre, post) = self.atomic_wrap(loc);
                self.new_var(Kind::KS { loc, bounded, ordered: true, once: true }, format!("{{0}}{pre}.scan(q!(|| 0i64), q!({f})){post}"), vec![a]);
            }
            4 => {
                if !(ordered && once) {
                    return false;
                }
                self.class("keyed-enumerate");
                self.stateful(loc);
                let (pre, post) = self.atomic_wrap(loc);
                self.new_var(
                    Kind::KS { loc, bounded, ordered: true, once: true },
                    format!("{{0}}{pre}.enumerate().map(q!(|(i, v): (usize, i64)| v.wrapping_mul(10).wrapping_add(i as i64))){post}"),
                    vec![a],
                );
            }
            5 => {
                if !(ordered && once) {
                    return false;
                }
                self.class("keyed-limit");
                self.stateful(loc);
                self.new_var(Kind::KS { loc, bounded, ordered: true, once: true }, "{0}.limit(q!(2usize))".into(), vec![a]);
            }
            6 | 7 => {
                // keyed fold -> keyed singleton; top-level bounded keyed folds are not supported
                // by the code generator (todo!() in emit_core), so only unbounded-top or tick
                if loc == Loc::Top && bounded {
                    if self.mode != Mode::Wild {
                        return false;
                    }
                    self.class("top-bounded-keyed-agg");
                }
                self.class("fold_keyed");
                self.stateful(loc);
                let kb = if bounded { KB::Bounded } else { KB::MonotonicKeys };
                let t = if ordered {
                    format!("{{0}}.fold(q!(|| 0i64), q!({}))", self.pick(FOLD_ORD))
                } else {
                    format!(
                        "{{0}}.fold(q!(|| 0i64), q!({}, commutative = manual_proof!(/** commutative and associative */)))",
                        self.pick(FOLD_COMM)
                    )
                };
                self.new_var(Kind::KSg { v: SV::I, loc, bound: kb }, t, vec![a]);
            }
            8 => {
                if loc == Loc::Top && bounded {
                    if self.mode != Mode::Wild {
                        return false;
                    }
                    self.class("top-bounded-keyed-agg");
                }
                self.class("reduce_keyed");
                self.stateful(loc);
                let kb = if bounded { KB::Bounded } else { KB::Unbounded };
                let t = if ordered {
                    format!("{{0}}.reduce(q!({}))", self.pick(REDUCE_ORD))
                } else {
                    format!(
                        "{{0}}.reduce(q!({}, commutative = manual_proof!(/** commutative and associative */)))",
                        self.pick(REDUCE_COMM)
                    )
                };
                self.new_var(Kind::KSg { v: SV::I, loc, bound: kb }, t, vec![a]);
            }
            9 => {
                if !(ordered && once) {
                    return false;
                }
                self.class("keyed-first");
                self.stateful(loc);
                let kb = if bounded { KB::Bounded } else { KB::BoundedValue };
                self.new_var(Kind::KSg { v: SV::I, loc, bound: kb }, "{0}.first()".into(), vec![a]);
            }
            10 => {
                if !once || (loc == Loc::Top && bounded && self.mode != Mode::Wild) {
                    return false;
                }
                if loc == Loc::Top && bounded {
                    self.class("top-bounded-keyed-agg");
                }
                self.class("value_counts");
                self.stateful(loc);
                let kb = if bounded { KB::Bounded } else { KB::MonotonicValue };
                self.new_var(Kind::KSg { v: SV::U, loc, bound: kb }, "{0}.value_counts()".into(), vec![a]);
            }
            11 => {
                self.class("keyed-entries");
                self.new_var(Kind::S { el: El::P, loc, bounded, ordered: false, once }, "{0}.entries()".into(), vec![a]);
            }
            12 => {
                self.class("keyed-keys");
                self.stateful(loc);
                self.new_var(Kind::S { el: El::I, loc, bounded, ordered: false, once: true }, "{0}.keys()".into(), vec![a]);
            }
            13 => {
                // get(key): key is a bounded singleton / optional i64 at the same location
                let Some(b) = self.find(|k| match k {
                    Kind::Sg { v: SV::I, loc: l2, bound: SB::Bounded } => *l2 == loc,
                    Kind::Op { el: El::I, loc: l2, bounded: true } => *l2 == loc,
                    _ => false,
                }) else {
                    return false;
                };
                self.class("keyed-get");
                self.stateful(loc);
                self.new_var(Kind::S { el: El::I, loc, bounded, ordered, once }, "{0}.get({1})".into(), vec![a, b]);
            }
            14 => {
                let Some(b) = self.find(|k| matches!(k, Kind::S { el: El::I, loc: l2, bounded: true, .. } if *l2 == loc)) else { return false };
                self.class("filter_key_not_in");
                self.stateful(loc);
                self.new_var(ks, "{0}.filter_key_not_in({1})".into(), vec![a, b]);
            }
            15 => {
                let Some(b) = self.find(|k| matches!(k, Kind::KSg { v: SV::I, loc: l2, bound: KB::Bounded } if *l2 == loc)) else { return false };
                self.class("join_keyed_singleton");
                self.stateful(loc);
                self.new_var(
                    ks,
                    "{0}.join_keyed_singleton({1}).map(q!(|(a, b): (i64, i64)| a.wrapping_mul(7).wrapping_add(b)))".into(),
                    vec![a, b],
                );
            }
            _ => {
                // keyed join with another keyed stream at the same location
                let Some(b) = self.find(|k| matches!(k, Kind::KS { loc: l2, .. } if *l2 == loc)) else { return false };
                let Kind::KS { bounded: b2, once: r2, .. } = self.vars[b].kind else { unreachable!() };
                if bounded && !b2 && self.mode == Mode::Safe {
                    self.avoided.push("bounded-join-unbounded".into());
                    return false;
                }
                self.class("keyed-join");
                self.stateful(loc);
                self.new_var(
                    Kind::KS { loc, bounded, ordered: false, once: once && r2 },
                    "{0}.join_keyed_stream({1}).map(q!(|(a, b): (i64, i64)| a.wrapping_mul(7).wrapping_add(b)))".into(),
                    vec![a, b],
                );
                let _ = b2;
            }
        }
        true
    }

    fn op_ksingle(&mut self) -> bool {
        let Some(a) = self.find(|k| matches!(k, Kind::KSg { .. })) else { return false };
        let Kind::KSg { v, loc, bound } = self.vars[a].kind else { unreachable!() };
        match self.ch.below(4) {
            0 => {
                if !bound.value_bounded() {
                    return false;
                }
                let el_map = match v {
                    SV::I => "",
                    SV::U => ".map(q!(|(k, c): (i64, usize)| (k, c as i64)))",
                };
                self.class("ks-entries");
                self.new_var(
                    Kind::S { el: El::P, loc, bounded: bound.underlying_bounded(), ordered: false, once: true },
                    format!("{{0}}.entries(){el_map}"),
                    vec![a],
                );
            }
            1 => {
                self.class("key_count");
                let sb = if bound.underlying_bounded() { SB::Bounded } else { SB::Unbounded };
                self.new_var(Kind::Sg { v: SV::U, loc, bound: sb }, "{0}.key_count()".into(), vec![a]);
            }
            2 => {
                if !bound.value_bounded() {
                    return false;
                }
                self.class("ks-keys");
                self.new_var(
                    Kind::S { el: El::I, loc, bounded: bound.underlying_bounded(), ordered: false, once: true },
                    "{0}.keys()".into(),
                    vec![a],
                );
            }
            _ => {
                // map erases monotonicity
                let nb = match bound {
                    KB::MonotonicValue => KB::MonotonicKeys,
                    b => b,
                };
                let f = match v {
                    SV::I => "|v: i64| v.wrapping_add(1)",
                    SV::U => "|c: usize| c as i64",
                };
                self.class("ks-map");
                self.new_var(Kind::KSg { v: SV::I, loc, bound: nb }, format!("{{0}}.map(q!({f}))"), vec![a]);
            }
        }
        true
    }

    fn op_singleton_ops(&mut self) -> bool {
        let Some(a) = self.find(|k| matches!(k, Kind::Sg { .. } | Kind::Op { .. })) else { return false };
        match self.vars[a].kind {
            Kind::Sg { v, loc, bound } => match self.ch.below(5) {
                0 => {
                    let f = match v {
                        SV::I => "|v: i64| v.wrapping_mul(2)",
                        SV::U => "|c: usize| c as i64",
                    };
                    let nb = match bound {
                        SB::Monotonic => SB::Unbounded,
                        b => b,
                    };
                    self.class("singleton-map");
                    self.new_var(Kind::Sg { v: SV::I, loc, bound: nb }, format!("{{0}}.map(q!({f}))"), vec![a]);
                }
                1 => {
                    if v != SV::I {
                        return false;
                    }
                    self.class("singleton-filter");
                    self.new_var(
                        Kind::Op { el: El::I, loc, bounded: bound == SB::Bounded },
                        "{0}.filter(q!(|v: &i64| *v % 2 == 0))".into(),
                        vec![a],
                    );
                }
                2 => {
                    if bound != SB::Bounded || v != SV::I {
                        return false;
                    }
                    self.class("singleton-into_stream");
                    self.new_var(Kind::S { el: El::I, loc, bounded: true, ordered: true, once: true }, "{0}.into_stream()".into(), vec![a]);
                }
                3 => {
                    // threshold on a monotone / bounded usize singleton
                    if v != SV::U || bound == SB::Unbounded {
                        return false;
                    }
                    let src = loc.handle();
                    self.class("threshold");
                    self.stateful(loc);
                    self.new_var(
                        Kind::S { el: El::I, loc, bounded: bound == SB::Bounded, ordered: true, once: true },
                        format!("{{0}}.threshold_greater_or_equal({src}.singleton(q!(2usize))).map(q!(|t: usize| t as i64))"),
                        vec![a],
                    );
                }
                _ => {
                    // zip two bounded singletons
                    if bound != SB::Bounded || v != SV::I {
                        return false;
                    }
                    let Some(b) = self.find(|k| matches!(k, Kind::Sg { v: SV::I, loc: l2, bound: SB::Bounded } if *l2 == loc)) else { return false };
                    if loc == Loc::Top && self.mode == Mode::Safe {
                        // confirmed finding (k_zip_into_stream): a top-level zip of bounded
                        // singletons replays its value every tick; excluded by construction
                        self.avoided.push("top-level-bounded-singleton-zip".into());
                        return false;
                    }
                    self.class("singleton-zip");
                    self.new_var(
                        Kind::Sg { v: SV::I, loc, bound: SB::Bounded },
                        "{0}.zip({1}).map(q!(|(a, b): (i64, i64)| a.wrapping_mul(5).wrapping_add(b)))".into(),
                        vec![a, b],
                    );
                }
            },
            Kind::Op { el, loc, bounded } => match self.ch.below(4) {
                0 => {
                    let f = match el {
                        El::I => "|v: i64| v.wrapping_add(3)",
                        El::P => "|(a, b): (i64, i64)| a.wrapping_add(b)",
                    };
                    self.class("optional-map");
                    self.new_var(Kind::Op { el: El::I, loc, bounded }, format!("{{0}}.map(q!({f}))"), vec![a]);
                }
                1 => {
                    let Some(b) = self.find(|k| matches!(k, Kind::Op { el: e2, loc: l2, bounded: b2 } if *e2 == el && *l2 == loc && *b2 == bounded)) else { return false };
                    self.class("optional-or");
                    self.new_var(Kind::Op { el, loc, bounded }, "{0}.or({1})".into(), vec![a, b]);
                }
                2 => {
                    self.class("optional-is_some");
                    let sb = if bounded { SB::Bounded } else { SB::Unbounded };
                    self.new_var(
                        Kind::Sg { v: SV::I, loc, bound: sb },
                        "{0}.is_some().map(q!(|b: bool| if b { 1i64 } else { 0i64 }))".into(),
                        vec![a],
                    );
                }
                _ => {
                    if !bounded {
                        return false;
                    }
                    self.class("optional-into_stream");
                    self.new_var(Kind::S { el, loc, bounded: true, ordered: true, once: true }, "{0}.into_stream()".into(), vec![a]);
                }
            },
            _ => unreachable!(),
        }
        true
    }

    fn op_weaken(&mut self) -> bool {
        let Some(a) = self.find(|k| matches!(k, Kind::S { .. })) else { return false };
        let Kind::S { el, loc, bounded, ordered, once } = self.vars[a].kind else { unreachable!() };
        if ordered && self.ch.chance(2, 3) {
            self.class("weaken_ordering");
            self.new_var(Kind::S { el, loc, bounded, ordered: false, once }, "{0}.weaken_ordering::<NoOrder>()".into(), vec![a]);
            true
        } else if once {
            // at-least-once view followed by the (idempotent) unique so that no AtLeastOnce
            // collection reaches an output
            self.class("weaken_retries");
            self.stateful(loc);
            self.new_var(
                Kind::S { el, loc, bounded, ordered, once: true },
                "{0}.weaken_retries::<AtLeastOnce>().unique()".into(),
                vec![a],
            );
            true
        } else {
            false
        }
    }

    fn op_tick_special(&mut self) -> bool {
        if self.mode == Mode::Safe {
            return false;
        }
        // defer_tick on a tick stream
        let Some(a) = self.find(|k| matches!(k, Kind::S { loc: Loc::Tick, .. })) else { return false };
        let k = self.vars[a].kind;
        self.class("defer_tick");
        self.cycle_or_defer = true;
        let id = self.new_var(k, "{0}.defer_tick()".into(), vec![a]);
        self.vars[id].delay += 1;
        true
    }

    // ---------------------------------------------------------------- wild mode (C41)
    fn wild_step(&mut self) -> bool {
        match self.ch.below(16) {
            0 | 1 => self.w_batch(),
            2 | 3 => self.w_all_ticks(),
            4 => self.w_snapshot(),
            5 => self.w_latest(),
            6 => self.w_tick_cycle(),
            7 => self.w_forward_ref(),
            8 | 9 => self.w_network(),
            10 => self.w_sliced(),
            11 => self.w_atomic(),
            12 => self.w_by_ref(),
            13 => self.w_nondet_cast(),
            14 => self.w_filter_not_in(),
            _ => self.op_tick_special(),
        }
    }

    fn w_batch(&mut self) -> bool {
        let Some(a) = self.find(|k| matches!(k, Kind::S { loc: Loc::Top, bounded: false, .. } | Kind::KS { loc: Loc::Top, bounded: false, .. })) else { return false };
        self.uses_tick = true;
        self.class("batch");
        match self.vars[a].kind {
            Kind::S { el, ordered, once, .. } => {
                self.new_var(Kind::S { el, loc: Loc::Tick, bounded: true, ordered, once }, "{0}.batch(&tick, nondet!(/** wild */))".into(), vec![a]);
            }
            Kind::KS { ordered, once, .. } => {
                self.new_var(Kind::KS { loc: Loc::Tick, bounded: true, ordered, once }, "{0}.batch(&tick, nondet!(/** wild */))".into(), vec![a]);
            }
            _ => unreachable!(),
        }
        true
    }

    fn w_all_ticks(&mut self) -> bool {
        let Some(a) = self.find(|k| matches!(k, Kind::S { loc: Loc::Tick, .. } | Kind::KS { loc: Loc::Tick, .. } | Kind::Sg { loc: Loc::Tick, .. } | Kind::Op { loc: Loc::Tick, .. })) else { return false };
        self.class("all_ticks");
        match self.vars[a].kind {
            Kind::S { el, ordered, once, .. } => {
                self.new_var(Kind::S { el, loc: Loc::Top, bounded: false, ordered, once }, "{0}.all_ticks()".into(), vec![a]);
            }
            Kind::KS { ordered, once, .. } => {
                self.new_var(Kind::KS { loc: Loc::Top, bounded: false, ordered, once }, "{0}.all_ticks()".into(), vec![a]);
            }
            Kind::Sg { v: SV::I, .. } => {
                self.new_var(Kind::S { el: El::I, loc: Loc::Top, bounded: false, ordered: true, once: true }, "{0}.all_ticks()".into(), vec![a]);
            }
            Kind::Sg { v: SV::U, .. } => {
                self.new_var(
                    Kind::S { el: El::I, loc: Loc::Top, bounded: false, ordered: true, once: true },
                    "{0}.all_ticks().map(q!(|c: usize| c as i64))".into(),
                    vec![a],
                );
            }
            Kind::Op { el, .. } => {
                self.new_var(Kind::S { el, loc: Loc::Top, bounded: false, ordered: true, once: true }, "{0}.all_ticks()".into(), vec![a]);
            }
            _ => unreachable!(),
        }
        true
    }

    fn w_snapshot(&mut self) -> bool {
        let Some(a) = self.find(|k| match k {
            Kind::Sg { loc: Loc::Top, bound, .. } => *bound != SB::Bounded,
            Kind::Op { loc: Loc::Top, bounded: false, .. } => true,
            Kind::KSg { loc: Loc::Top, bound, .. } => !bound.value_bounded(),
            _ => false,
        }) else {
            return false;
        };
        self.uses_tick = true;
        self.class("snapshot");
        match self.vars[a].kind {
            Kind::Sg { v, .. } => {
                self.new_var(Kind::Sg { v, loc: Loc::Tick, bound: SB::Bounded }, "{0}.snapshot(&tick, nondet!(/** wild */))".into(), vec![a]);
            }
            Kind::Op { el, .. } => {
                self.new_var(Kind::Op { el, loc: Loc::Tick, bounded: true }, "{0}.snapshot(&tick, nondet!(/** wild */))".into(), vec![a]);
            }
            Kind::KSg { v, .. } => {
                self.new_var(Kind::KSg { v, loc: Loc::Tick, bound: KB::Bounded }, "{0}.snapshot(&tick, nondet!(/** wild */))".into(), vec![a]);
            }
            _ => unreachable!(),
        }
        true
    }

    fn w_latest(&mut self) -> bool {
        let Some(a) = self.find(|k| matches!(k, Kind::Sg { loc: Loc::Tick, .. } | Kind::Op { loc: Loc::Tick, .. })) else { return false };
        self.class("latest");
        match self.vars[a].kind {
            Kind::Sg { v, .. } => {
                self.new_var(Kind::Sg { v, loc: Loc::Top, bound: SB::Unbounded }, "{0}.latest()".into(), vec![a]);
            }
            Kind::Op { el, .. } => {
                self.new_var(Kind::Op { el, loc: Loc::Top, bounded: false }, "{0}.latest()".into(), vec![a]);
            }
            _ => unreachable!(),
        }
        true
    }

    /// `tick.cycle()` / `cycle_with_initial`: the handle is completed at the end of the program
    /// with a collection of exactly the declared type (always completed).
    fn w_tick_cycle(&mut self) -> bool {
        self.uses_tick = true;
        self.cycle_or_defer = true;
        let n = self.pending_cycles.len();
        let h = format!("h{n}");
        match self.ch.below(3) {
            0 => {
                let el = if self.ch.chance(1, 2) { El::I } else { El::P };
                let ordered = self.ch.chance(1, 2);
                let kind = Kind::S { el, loc: Loc::Tick, bounded: true, ordered, once: true };
                let o = if ordered { "TotalOrder" } else { "NoOrder" };
                self.class("tick-cycle-stream");
                let id = self.new_var(
                    kind,
                    format!("{{ let (hh, cyc) = tick.cycle::<Stream<{}, Tick<Process<'a, ()>>, Bounded, {o}, ExactlyOnce>, _>(); {h} = Some(hh); cyc }}", el.rust()),
                    vec![],
                );
                self.vars[id].carried = true;
                self.pending_cycles.push((format!("S:{h}"), kind));
            }
            1 => {
                let kind = Kind::Op { el: El::I, loc: Loc::Tick, bounded: true };
                self.class("tick-cycle-optional");
                let id = self.new_var(
                    kind,
                    format!("{{ let (hh, cyc) = tick.cycle::<Optional<i64, Tick<Process<'a, ()>>, Bounded>, _>(); {h} = Some(hh); cyc }}"),
                    vec![],
                );
                self.vars[id].carried = true;
                self.pending_cycles.push((format!("O:{h}"), kind));
            }
            _ => {
                let kind = Kind::Sg { v: SV::I, loc: Loc::Tick, bound: SB::Bounded };
                self.class("tick-cycle-with-initial");
                let id = self.new_var(
                    kind,
                    format!("{{ let (hh, cyc) = tick.cycle_with_initial(tick.singleton(q!(0i64))); {h} = Some(hh); cyc }}"),
                    vec![],
                );
                self.vars[id].carried = true;
                self.pending_cycles.push((format!("G:{h}"), kind));
            }
        }
        true
    }

    /// top-level forward reference; completed at the end (see `complete_handles`)
    fn w_forward_ref(&mut self) -> bool {
        let n = self.pending_cycles.len();
        let h = format!("h{n}");
        let el = if self.ch.chance(1, 2) { El::I } else { El::P };
        let kind = Kind::S { el, loc: Loc::Top, bounded: false, ordered: false, once: true };
        self.class("forward_ref");
        let id = self.new_var(
            kind,
            format!("{{ let (hh, fwd) = p.forward_ref::<Stream<{}, Process<'a, ()>, Unbounded, NoOrder, ExactlyOnce>>(); {h} = Some(hh); fwd }}", el.rust()),
            vec![],
        );
        self.vars[id].carried = true;
        self.pending_cycles.push((format!("F:{h}:{id}"), kind));
        true
    }

    fn w_network(&mut self) -> bool {
        self.no_run = true;
        let ch_name = format!("ch{}", self.channels);
        match self.ch.below(4) {
            0 => {
                // process -> process 2
                let Some(a) = self.find(|k| matches!(k, Kind::S { loc: Loc::Top, .. })) else { return false };
                let Kind::S { el, ordered, once, .. } = self.vars[a].kind else { unreachable!() };
                self.uses_p2 = true;
                self.channels += 1;
                self.class("net-o2o");
                let ser = if self.ch.chance(1, 3) { "embedded" } else { "bincode" };
                self.new_var(
                    Kind::S { el, loc: Loc::P2, bounded: false, ordered, once },
                    format!("{{0}}.send(p2, TCP.fail_stop().{ser}().name(\"{ch_name}\"))"),
                    vec![a],
                );
            }
            1 => {
                // process 2 -> process
                let Some(a) = self.find(|k| matches!(k, Kind::S { loc: Loc::P2, .. })) else { return false };
                let Kind::S { el, ordered, once, .. } = self.vars[a].kind else { unreachable!() };
                self.channels += 1;
                self.class("net-o2o-back");
                self.new_var(
                    Kind::S { el, loc: Loc::Top, bounded: false, ordered, once },
                    format!("{{0}}.send(p, TCP.fail_stop().bincode().name(\"{ch_name}\"))"),
                    vec![a],
                );
            }
            2 => {
                // process -> cluster broadcast
                let Some(a) = self.find(|k| matches!(k, Kind::S { loc: Loc::Top, .. })) else { return false };
                let Kind::S { el, ordered, once, .. } = self.vars[a].kind else { unreachable!() };
                self.uses_cluster = true;
                self.channels += 1;
                self.class("net-broadcast");
                self.new_var(
                    Kind::S { el, loc: Loc::Clu, bounded: false, ordered, once },
                    format!("{{0}}.broadcast(c, TCP.fail_stop().bincode().name(\"{ch_name}\"), nondet!(/** wild */))"),
                    vec![a],
                );
            }
            _ => {
                // cluster -> process (keyed by member), values only
                let Some(a) = self.find(|k| matches!(k, Kind::S { loc: Loc::Clu, .. })) else { return false };
                let Kind::S { el, once, .. } = self.vars[a].kind else { unreachable!() };
                self.channels += 1;
                self.class("net-m2o");
                self.new_var(
                    Kind::S { el, loc: Loc::Top, bounded: false, ordered: false, once },
                    format!("{{0}}.send(p, TCP.fail_stop().bincode().name(\"{ch_name}\")).values()"),
                    vec![a],
                );
            }
        }
        true
    }

    fn w_sliced(&mut self) -> bool {
        let Some(a) = self.find(|k| matches!(k, Kind::S { el: El::I, loc: Loc::Top, bounded: false, .. })) else { return false };
        let Kind::S { ordered, once, .. } = self.vars[a].kind else { unreachable!() };
        let Some(b) = self.find(|k| matches!(k, Kind::Sg { v: SV::I, loc: Loc::Top, bound, .. } if *bound != SB::Bounded)) else { return false };
        self.class("sliced");
        self.new_var(
            Kind::S { el: El::P, loc: Loc::Top, bounded: false, ordered, once },
            "sliced! { let b = use::batch({0}, nondet!(/** wild */)); let s = use::snapshot({1}, nondet!(/** wild */)); b.cross_singleton(s) }".into(),
            vec![a, b],
        );
        true
    }

    fn w_atomic(&mut self) -> bool {
        let Some(a) = self.find(|k| matches!(k, Kind::S { el: El::I, loc: Loc::Top, bounded: false, .. })) else { return false };
        let k = self.vars[a].kind;
        self.class("atomic");
        self.new_var(k, format!("{{0}}.atomic().map(q!({})).end_atomic()", MAP_II[0]), vec![a]);
        true
    }

    fn w_by_ref(&mut self) -> bool {
        let Some(a) = self.find(|k| matches!(k, Kind::S { el: El::I, loc: Loc::Tick, .. })) else { return false };
        let Some(b) = self.find(|k| matches!(k, Kind::Sg { v: SV::I, loc: Loc::Tick, bound: SB::Bounded })) else { return false };
        let k = self.vars[a].kind;
        self.class("by_ref");
        self.new_var(
            k,
            "{ let sg = {1}; let r = sg.by_ref(); {0}.map(q!(|x: i64| x.wrapping_add(*r))) }".into(),
            vec![a, b],
        );
        true
    }

    fn w_nondet_cast(&mut self) -> bool {
        let Some(a) = self.find(|k| matches!(k, Kind::S { .. })) else { return false };
        let Kind::S { el, loc, bounded, ordered, once } = self.vars[a].kind else { unreachable!() };
        if loc == Loc::Clu {
            return false;
        }
        if !ordered {
            self.class("assume_ordering");
            self.new_var(Kind::S { el, loc, bounded, ordered: true, once }, "{0}.assume_ordering::<TotalOrder>(nondet!(/** wild */))".into(), vec![a]);
        } else if !once {
            self.class("assume_retries");
            self.new_var(Kind::S { el, loc, bounded, ordered, once: true }, "{0}.assume_retries::<ExactlyOnce>(nondet!(/** wild */))".into(), vec![a]);
        } else {
            self.class("weaken_retries_raw");
            self.new_var(Kind::S { el, loc, bounded, ordered, once: false }, "{0}.weaken_retries::<AtLeastOnce>()".into(), vec![a]);
        }
        true
    }

    fn w_filter_not_in(&mut self) -> bool {
        let Some(a) = self.find(|k| matches!(k, Kind::S { .. })) else { return false };
        let Kind::S { el, loc, bounded, once, .. } = self.vars[a].kind else { unreachable!() };
        let Some(b) = self.find(|k| matches!(k, Kind::S { el: e2, loc: l2, bounded: true, once: r2, .. } if *e2 == el && *l2 == loc && *r2 == once)) else { return false };
        self.class(if bounded { "filter_not_in" } else { "filter_not_in-unbounded-pos" });
        let k = self.vars[a].kind;
        self.new_var(k, "{0}.filter_not_in({1})".into(), vec![a, b]);
        true
    }

    /// Complete every pending tick cycle / forward reference with a collection of exactly the
    /// declared type (creating one from the declared collection itself if necessary).
    fn complete_handles(&mut self, tail: &mut Vec<Stmt>) {
        let pending = self.pending_cycles.clone();
        for (tag, kind) in pending {
            let mut parts = tag.split(':');
            let what = parts.next().unwrap();
            let h = parts.next().unwrap().to_string();
            match what {
                "S" => {
                    let Kind::S { el, ordered, .. } = kind else { unreachable!() };
                    // any tick stream of the element type; adapt ordering / retries with safe casts
                    let cand = self.find(|k| matches!(k, Kind::S { el: e2, loc: Loc::Tick, once: true, .. } if *e2 == el));
                    let Some(v) = cand else {
                        tail.push(Stmt { res: None, tmpl: format!("{h}.take().unwrap().complete_next_tick(tick.source_iter(q!(Vec::<{}>::new())))", el.rust()), args: vec![] });
                        continue;
                    };
                    let Kind::S { ordered: vo, .. } = self.vars[v].kind else { unreachable!() };
                    let adapt = if ordered && !vo {
                        ".assume_ordering::<TotalOrder>(nondet!(/** wild */))"
                    } else if !ordered && vo {
                        ".weaken_ordering::<NoOrder>()"
                    } else {
                        ""
                    };
                    self.vars[v].uses += 1;
                    tail.push(Stmt { res: None, tmpl: format!("{h}.take().unwrap().complete_next_tick({{0}}{adapt})"), args: vec![v] });
                }
                "O" => {
                    let cand = self.find(|k| matches!(k, Kind::Op { el: El::I, loc: Loc::Tick, .. }));
                    match cand {
                        Some(v) => {
                            self.vars[v].uses += 1;
                            tail.push(Stmt { res: None, tmpl: format!("{h}.take().unwrap().complete_next_tick({{0}})"), args: vec![v] });
                        }
                        None => tail.push(Stmt { res: None, tmpl: format!("{h}.take().unwrap().complete_next_tick(tick.none::<i64>())"), args: vec![] }),
                    }
                }
                "G" => {
                    let cand = self.find(|k| matches!(k, Kind::Sg { v: SV::I, loc: Loc::Tick, bound: SB::Bounded }));
                    match cand {
                        Some(v) => {
                            self.vars[v].uses += 1;
                            tail.push(Stmt { res: None, tmpl: format!("{h}.take().unwrap().complete_next_tick({{0}})"), args: vec![v] });
                        }
                        None => tail.push(Stmt { res: None, tmpl: format!("{h}.take().unwrap().complete_next_tick(tick.singleton(q!(1i64)))"), args: vec![] }),
                    }
                }
                _ => {
                    // forward reference: complete with a top-level stream that was created BEFORE
                    // the forward reference (so it cannot depend on it): a pure forward reference
                    let fid: usize = parts.next().unwrap().parse().unwrap();
                    let Kind::S { el, .. } = kind else { unreachable!() };
                    let cands: Vec<usize> = (0..fid)
                        .filter(|i| matches!(self.vars[*i].kind, Kind::S { el: e2, loc: Loc::Top, once: true, .. } if e2 == el) && !self.vars[*i].carried)
                        .collect();
                    if cands.is_empty() {
                        tail.push(Stmt {
                            res: None,
                            tmpl: format!("{h}.take().unwrap().complete(p.source_iter(q!(Vec::<{}>::new())).weaken_ordering::<NoOrder>())", el.rust()),
                            args: vec![],
                        });
                    } else {
                        let v = cands[self.ch.below(cands.len())];
                        let Kind::S { ordered: vo, bounded: vb, .. } = self.vars[v].kind else { unreachable!() };
                        let adapt = if vo { ".weaken_ordering::<NoOrder>()" } else { "" };
                        let _ = vb;
                        self.vars[v].uses += 1;
                        tail.push(Stmt { res: None, tmpl: format!("{h}.take().unwrap().complete({{0}}{adapt})"), args: vec![v] });
                    }
                }
            }
        }
    }

    // ---------------------------------------------------------------- outputs
    fn output_for(&mut self, v: usize, idx: usize, outs: &mut Vec<OutSpec>, tail: &mut Vec<Stmt>) -> bool {
        let name = format!("out{idx}");
        let kind = self.vars[v].kind;
        let per_tick = self.mode == Mode::Tick;
        if matches!(kind.loc(), Loc::P2 | Loc::Clu) && !matches!(kind, Kind::S { .. }) {
            return false;
        }
        match kind {
            Kind::S { el, loc, ordered, once, .. } => {
                if !once {
                    return false;
                }
                let to_top = if loc == Loc::Tick { ".all_ticks()" } else { "" };
                let (adapt, okind) = if ordered {
                    (String::new(), if per_tick { OutKind::PerTickSeq } else { OutKind::Seq })
                } else {
                    (
                        ".assume_ordering::<TotalOrder>(nondet!(/** terminal observation adapter: multiset */))".to_string(),
                        if per_tick { OutKind::PerTickBag } else { OutKind::Bag },
                    )
                };
                tail.push(Stmt { res: None, tmpl: format!("{{0}}{to_top}{adapt}.embedded_output(\"{name}\")"), args: vec![v] });
                outs.push(OutSpec { name, ty: el.ty(), kind: okind, promise: None, delay: 0, shift_of: None, slice: vec![], concat: false });
            }
            Kind::KS { loc, ordered, once, .. } => {
                if !once {
                    return false;
                }
                let to_top = if loc == Loc::Tick { ".all_ticks()" } else { "" };
                if ordered {
                    tail.push(Stmt {
                        res: None,
                        tmpl: format!("{{0}}.entries_partially_ordered(nondet!(/** terminal observation adapter: per-key order */)){to_top}.embedded_output(\"{name}\")"),
                        args: vec![v],
                    });
                    outs.push(OutSpec { name, ty: El::P.ty(), kind: if per_tick { OutKind::PerTickKeyed } else { OutKind::KeyedSeq }, promise: None, delay: 0, shift_of: None, slice: vec![], concat: false });
                } else {
                    tail.push(Stmt {
                        res: None,
                        tmpl: format!("{{0}}.entries(){to_top}.assume_ordering::<TotalOrder>(nondet!(/** terminal observation adapter: multiset */)).embedded_output(\"{name}\")"),
                        args: vec![v],
                    });
                    outs.push(OutSpec { name, ty: El::P.ty(), kind: if per_tick { OutKind::PerTickBag } else { OutKind::Bag }, promise: None, delay: 0, shift_of: None, slice: vec![], concat: false });
                }
            }
            Kind::Sg { v: sv, loc, bound } => {
                if loc == Loc::Tick {
                    tail.push(Stmt { res: None, tmpl: format!("{{0}}.all_ticks().embedded_output(\"{name}\")"), args: vec![v] });
                    outs.push(OutSpec { name, ty: sv.ty(), kind: OutKind::PerTickSeq, promise: None, delay: 0, shift_of: None, slice: vec![], concat: false });
                } else if bound == SB::Bounded {
                    tail.push(Stmt { res: None, tmpl: format!("{{0}}.into_stream().embedded_output(\"{name}\")"), args: vec![v] });
                    outs.push(OutSpec { name, ty: sv.ty(), kind: OutKind::Seq, promise: None, delay: 0, shift_of: None, slice: vec![], concat: false });
                } else {
                    self.uses_tick = true;
                    tail.push(Stmt {
                        res: None,
                        tmpl: format!("{{0}}.snapshot(&tick, nondet!(/** terminal observation adapter: per-tick snapshot */)).all_ticks().embedded_output(\"{name}\")"),
                        args: vec![v],
                    });
                    let promise = if bound == SB::Monotonic { Some(Promise::MonoSingleton) } else { None };
                    outs.push(OutSpec { name, ty: sv.ty(), kind: OutKind::Final, promise, delay: 0, shift_of: None, slice: vec![], concat: false });
                }
            }
            Kind::Op { el, loc, bounded } => {
                if loc == Loc::Tick {
                    tail.push(Stmt { res: None, tmpl: format!("{{0}}.all_ticks().embedded_output(\"{name}\")"), args: vec![v] });
                    outs.push(OutSpec { name, ty: el.ty(), kind: OutKind::PerTickSeq, promise: None, delay: 0, shift_of: None, slice: vec![], concat: false });
                } else if bounded {
                    tail.push(Stmt { res: None, tmpl: format!("{{0}}.into_stream().embedded_output(\"{name}\")"), args: vec![v] });
                    outs.push(OutSpec { name, ty: el.ty(), kind: OutKind::Seq, promise: None, delay: 0, shift_of: None, slice: vec![], concat: false });
                } else {
                    self.uses_tick = true;
                    tail.push(Stmt {
                        res: None,
                        tmpl: format!("{{0}}.snapshot(&tick, nondet!(/** terminal observation adapter: per-tick snapshot */)).all_ticks().embedded_output(\"{name}\")"),
                        args: vec![v],
                    });
                    outs.push(OutSpec { name, ty: el.ty(), kind: OutKind::Final, promise: None, delay: 0, shift_of: None, slice: vec![], concat: false });
                }
            }
            Kind::KSg { v: sv, loc, bound } => {
                let ty = Ty::Tup(vec![Ty::I64, sv.ty()]);
                if loc == Loc::Tick {
                    tail.push(Stmt {
                        res: None,
                        tmpl: format!("{{0}}.entries().all_ticks().assume_ordering::<TotalOrder>(nondet!(/** terminal observation adapter: multiset */)).embedded_output(\"{name}\")"),
                        args: vec![v],
                    });
                    outs.push(OutSpec { name, ty, kind: OutKind::PerTickBag, promise: None, delay: 0, shift_of: None, slice: vec![], concat: false });
                } else if bound.value_bounded() {
                    tail.push(Stmt {
                        res: None,
                        tmpl: format!("{{0}}.entries().assume_ordering::<TotalOrder>(nondet!(/** terminal observation adapter: multiset */)).embedded_output(\"{name}\")"),
                        args: vec![v],
                    });
                    let promise = if bound == KB::BoundedValue { Some(Promise::BoundedValue) } else { None };
                    outs.push(OutSpec { name, ty, kind: OutKind::Bag, promise, delay: 0, shift_of: None, slice: vec![], concat: false });
                } else {
                    self.uses_tick = true;
                    tail.push(Stmt {
                        res: None,
                        tmpl: format!("{{0}}.snapshot(&tick, nondet!(/** terminal observation adapter: per-tick snapshot */)).entries().all_ticks().assume_ordering::<TotalOrder>(nondet!(/** terminal observation adapter: multiset */)).embedded_output(\"{name}\")"),
                        args: vec![v],
                    });
                    let promise = match bound {
                        KB::MonotonicKeys => Some(Promise::MonoKeys),
                        KB::MonotonicValue => Some(Promise::MonoValue),
                        _ => None,
                    };
                    outs.push(OutSpec { name, ty, kind: OutKind::Final, promise, delay: 0, shift_of: None, slice: vec![], concat: false });
                }
            }
        }
        self.vars[v].uses += 1;
        if let Some(o) = outs.last_mut() {
            o.delay = self.vars[v].delay;
            let mut seen = std::collections::BTreeSet::new();
            let mut stack = vec![v];
            let mut labels = std::collections::BTreeSet::new();
            while let Some(x) = stack.pop() {
                if !seen.insert(x) {
                    continue;
                }
                if !self.vars[x].label.is_empty() {
                    labels.insert(self.vars[x].label.clone());
                }
                stack.extend(self.vars[x].args.iter().cloned());
            }
            o.slice = labels.into_iter().collect();
        }
        true
    }

    /// count / keyed fold / value_counts / keyed first on some unbounded top-level stream,
    /// observed by a per-tick snapshot: a collection with a type promise (C33), also stateful (C28)
    fn add_promise_output(&mut self, outs: &mut Vec<OutSpec>, tail: &mut Vec<Stmt>) {
        let want_keyed = self.ch.chance(1, 2);
        let idx = outs.len();
        if want_keyed {
            let Some(a) = self.find(|k| matches!(k, Kind::S { el: El::P, loc: Loc::Top, bounded: false, once: true, .. })) else { return };
            let Kind::S { ordered, .. } = self.vars[a].kind else { unreachable!() };
            let (expr, kind) = match self.ch.below(3) {
                0 => ("{0}.into_keyed().value_counts()".to_string(), Kind::KSg { v: SV::U, loc: Loc::Top, bound: KB::MonotonicValue }),
                1 if ordered => ("{0}.into_keyed().first()".to_string(), Kind::KSg { v: SV::I, loc: Loc::Top, bound: KB::BoundedValue }),
                _ => {
                    let f = if ordered {
                        format!("q!({})", FOLD_ORD[0])
                    } else {
                        format!("q!({}, commutative = manual_proof!(/** commutative and associative */))", FOLD_COMM[0])
                    };
                    (format!("{{0}}.into_keyed().fold(q!(|| 0i64), {f})"), Kind::KSg { v: SV::I, loc: Loc::Top, bound: KB::MonotonicKeys })
                }
            };
            self.class("keyed");
            self.class("promise");
            self.stateful_top = true;
            let v = self.new_var(kind, expr, vec![a]);
            self.output_for(v, idx, outs, tail);
        } else {
            let Some(a) = self.find(|k| matches!(k, Kind::S { loc: Loc::Top, bounded: false, once: true, .. })) else { return };
            self.class("count");
            self.class("promise");
            self.stateful_top = true;
            let v = self.new_var(Kind::Sg { v: SV::U, loc: Loc::Top, bound: SB::Monotonic }, "{0}.count()".into(), vec![a]);
            self.output_for(v, idx, outs, tail);
        }
    }

    /// `across_ticks(|s| s.<stream op>())` on a per-item pipeline of one input, as an extra output
    fn add_across_output(&mut self, outs: &mut Vec<OutSpec>, tail: &mut Vec<Stmt>) {
        let cands: Vec<usize> = (0..self.vars.len())
            .filter(|i| self.vars[*i].pure && matches!(self.vars[*i].kind, Kind::S { loc: Loc::Tick, ordered: true, once: true, .. }))
            .collect();
        if cands.is_empty() {
            return;
        }
        let a = cands[self.ch.below(cands.len())];
        let Kind::S { el, .. } = self.vars[a].kind else { unreachable!() };
        let (body, out_el) = match (self.ch.below(3), el) {
            (0, El::I) => ("s.enumerate().map(q!(|(i, x): (usize, i64)| (i as i64, x)))".to_string(), El::P),
            (0, El::P) => ("s.enumerate().map(q!(|(i, (a, b)): (usize, (i64, i64))| (i as i64, a.wrapping_add(b))))".to_string(), El::P),
            (1, El::I) => (format!("s.scan(q!(|| 0i64), q!({}))", SCAN_I[0]), El::I),
            _ => ("s.unique()".to_string(), el),
        };
        self.class("across_ticks");
        self.cycle_or_defer = true;
        let v = self.new_var(
            Kind::S { el: out_el, loc: Loc::Tick, bounded: true, ordered: true, once: true },
            format!("{{0}}.across_ticks(|s| {body})"),
            vec![a],
        );
        self.vars[v].carried = true;
        let idx = outs.len();
        if self.output_for(v, idx, outs, tail) {
            outs.last_mut().unwrap().concat = true;
        }
    }

    /// an output together with its one-tick-deferred copy
    fn add_shift_output(&mut self, outs: &mut Vec<OutSpec>, tail: &mut Vec<Stmt>) {
        let Some(a) = self.find(|k| matches!(k, Kind::S { loc: Loc::Tick, once: true, .. })) else { return };
        let k = self.vars[a].kind;
        let base_idx = outs.len();
        // the base stream itself as an output (it may already be used elsewhere: tee)
        if !self.output_for(a, base_idx, outs, tail) {
            return;
        }
        self.class("defer_tick");
        self.cycle_or_defer = true;
        let d = self.new_var(k, "{0}.defer_tick()".into(), vec![a]);
        self.vars[d].delay += 1;
        let idx = outs.len();
        if self.output_for(d, idx, outs, tail) {
            let base = format!("out{base_idx}");
            outs.last_mut().unwrap().shift_of = Some(base);
        }
    }

    pub fn build(mut self, name: &str, n_ops: usize) -> ProgSpec {
        // sources
        let n_in = 1 + self.ch.below(2) + if self.ch.chance(1, 4) { 1 } else { 0 };
        for i in 0..n_in {
            let el = if (i == 0 && self.ch.chance(1, 2)) || self.ch.chance(1, 2) { El::P } else { El::I };
            self.add_input(el);
        }
        if self.ch.chance(1, 3) {
            let el = if self.ch.chance(1, 2) { El::P } else { El::I };
            self.add_bounded_source(el);
        }
        if self.ch.chance(1, 4) {
            self.add_singleton_source();
        }
        let mut added = 0;
        let mut tries = 0;
        while added < n_ops && tries < n_ops * 12 {
            tries += 1;
            if self.step() {
                added += 1;
            }
        }
        // outputs: unused variables first (most recent first), at most 3
        let mut outs = vec![];
        let mut tail = vec![];
        let order: Vec<usize> = (0..self.vars.len()).rev().collect();
        for v in order {
            if outs.len() >= 3 {
                break;
            }
            if self.vars[v].uses == 0 {
                // raw inputs are not interesting outputs unless nothing else exists
                self.output_for(v, outs.len(), &mut outs, &mut tail);
            }
        }
        if outs.is_empty() {
            let last = self.vars.len() - 1;
            for v in (0..=last).rev() {
                if self.output_for(v, 0, &mut outs, &mut tail) {
                    break;
                }
            }
        }
        self.complete_handles(&mut tail);
        // extra outputs: a promise-carrying aggregate (safe mode) / a deferred copy (tick mode)
        if self.mode == Mode::Safe && self.ch.chance(1, 2) {
            self.add_promise_output(&mut outs, &mut tail);
        }
        if self.mode == Mode::Tick && self.ch.chance(1, 2) {
            self.add_shift_output(&mut outs, &mut tail);
        }
        if self.mode == Mode::Tick && self.ch.chance(1, 2) {
            self.add_across_output(&mut outs, &mut tail);
        }
        self.stmts.extend(tail);
        let shared = self.vars.iter().any(|v| v.uses >= 2);
        let src = self.emit(name);
        let mut classes = self.classes.clone();
        classes.sort();
        ProgSpec {
            name: name.to_string(),
            src: Some(src),
            inputs: self.inputs.clone(),
            sing_inputs: self.sing_inputs.clone(),
            outputs: outs,
            locs: {
                let mut l = vec![];
                if self.uses_p2 {
                    l.push("p2".to_string());
                }
                if self.uses_cluster {
                    l.push("c".to_string());
                }
                l
            },
            no_run: self.mode == Mode::Wild,
            traits: Traits {
                safe: self.mode == Mode::Safe,
                stateful_top: self.stateful_top,
                cycle_or_defer: self.cycle_or_defer,
                tick_program: self.mode == Mode::Tick,
                ops: added as u32,
                shared,
                classes,
                avoided: self.avoided.clone(),
            },
        }
    }

    fn emit(&self, name: &str) -> String {
        let mut remaining: Vec<u32> = self.vars.iter().map(|v| v.uses).collect();
        let mut s = String::new();
        let mut params = String::from("p: &Process<'a, ()>");
        if self.uses_p2 {
            params.push_str(", p2: &Process<'a, ()>");
        }
        if self.uses_cluster {
            params.push_str(", c: &Cluster<'a, ()>");
        }
        s.push_str(&format!("pub fn {name}<'a>({params}) {{\n"));
        if self.uses_tick {
            s.push_str("    let tick = p.tick();\n");
        }
        for i in 0..self.pending_cycles.len() {
            s.push_str(&format!("    let mut h{i} = None;\n"));
        }
        for st in &self.stmts {
            let mut line = st.tmpl.clone();
            for (i, a) in st.args.iter().enumerate() {
                let expr = if remaining[*a] > 1 { format!("v{a}.clone()") } else { format!("v{a}") };
                remaining[*a] = remaining[*a].saturating_sub(1);
                line = line.replace(&format!("{{{i}}}"), &expr);
            }
            match st.res {
                Some(r) => s.push_str(&format!("    let v{r} = {line};\n")),
                None => s.push_str(&format!("    {line};\n")),
            }
        }
        s.push_str("}\n");
        s
    }
}

/// Generate `n` programs named `<prefix>_<i>`.
pub fn generate(ch: &mut Choices, mode: Mode, prefix: &str, n: usize, max_ops: usize) -> Vec<ProgSpec> {
    let mut out = vec![];
    for i in 0..n {
        let max_ops = if mode == Mode::Wild { max_ops + 5 } else { max_ops };
        let n_ops = 2 + ch.below(max_ops.saturating_sub(1));
        let g = Gen::new(ch, mode);
        out.push(g.build(&format!("{prefix}_{i:04}"), n_ops));
    }
    out
}

/// Mark (i64, i64) inputs that are only consumed as keyed streams with ordered values, so that
/// cross-key interleavings are admissible re-presentations for C29. Conservative: an input is
/// "keyed" if the program's source applies `.into_keyed()` directly to it and uses it nowhere else.
pub fn mark_keyed_inputs(p: &mut ProgSpec) {
    let Some(src) = p.src.clone() else { return };
    // find `let vN = p.embedded_input::<(i64, i64)>("inK");` and check all uses of vN
    for inp in p.inputs.iter_mut() {
        if !inp.ty.is_pair() {
            continue;
        }
        let pat = format!("(\"{}\")", inp.name);
        let Some(line) = src.lines().find(|l| l.contains(&pat)) else { continue };
        let Some(var) = line.trim().strip_prefix("let ").and_then(|r| r.split(' ').next()) else { continue };
        let uses: Vec<&str> = src
            .lines()
            .filter(|l| !l.contains(&pat))
            .filter(|l| {
                l.contains(&format!("{var}.")) || l.contains(&format!("{var})")) || l.contains(&format!("{var},"))
            })
            .collect();
        if !uses.is_empty() && uses.iter().all(|l| l.contains(&format!("= {var}.into_keyed()")) || l.contains(&format!("= {var}.clone().into_keyed()"))) {
            inp.keyed = true;
        }
    }
}
