//! Writing, building (with stage attribution) and running a batch of Hydro programs.
//!
//! A batch lives in a *slot* directory `$VERIF_ROOT/work/hydro/<slot>/` holding a two-crate cargo
//! workspace: `vh_progs` (stageleft library: corpus + generated program functions) and `vh_run`
//! (build.rs -> `generate_embedded` per program; `main` drives each generated `Dfir` under the
//! schedules given in a JSON file). Path dependencies go through `$VERIF_REPO` only.
use std::collections::{BTreeMap, BTreeSet};
use std::path::{Path, PathBuf};
use std::process::{Command, Stdio};

use serde::{Deserialize, Serialize};
use serde_json::{json, Value};

use crate::spec::{ProgSpec, RunResult, Schedule};

pub fn verif_root() -> PathBuf {
    PathBuf::from(std::env::var("VERIF_ROOT").unwrap_or_else(|_| "/verif".into()))
}
pub fn verif_repo() -> PathBuf {
    std::env::var("VERIF_REPO")
        .map(PathBuf::from)
        .unwrap_or_else(|_| verif_root().join("repo"))
}
pub fn gen_target_dir() -> PathBuf {
    verif_root().join("target").join("hydro-gen")
}
pub fn slot_dir(slot: &str) -> PathBuf {
    verif_root().join("work").join("hydro").join(slot)
}

pub const SUPPORT_RS: &str = include_str!("../templates/support.rs");
pub const CORPUS_RS: &str = include_str!("../templates/corpus.rs");
pub const NET_RS: &str = include_str!("../templates/net.rs");

#[derive(Clone, Debug, Serialize, Deserialize, PartialEq, Eq)]
pub enum Stage {
    /// my emitted source does not type-check (generator bug; never a violation)
    Stage1,
    /// panic while building the flow (the program function itself)
    FlowBuild,
    /// panic inside finalize / generate_embedded (emit, DFIR parse, partition, as_code)
    Compile,
    /// rustc rejects the generated code
    Stage2,
    /// rustc rejects my glue (harness bug; never a violation)
    Glue,
}

#[derive(Clone, Debug, Serialize, Deserialize)]
pub struct Failure {
    pub stage: Stage,
    pub msg: String,
}

#[derive(Clone, Debug, Default)]
pub struct BuildReport {
    pub runner: Option<PathBuf>,
    pub ok: BTreeSet<String>,
    pub failed: BTreeMap<String, Failure>,
    pub infra: Option<String>,
    pub build_secs: f64,
    pub rounds: u32,
}

/// Extra, hand-written glue for special programs (network topologies): (module name, build.rs
/// snippet producing `<name>.rs` into OUT_DIR, glue source).
#[derive(Clone, Debug)]
pub struct Special {
    pub name: String,
    pub build_snippet: String,
    pub glue: String,
}

fn write_if_changed(path: &Path, content: &str) -> bool {
    if let Ok(old) = std::fs::read_to_string(path) {
        if old == content {
            return false;
        }
    }
    if let Some(d) = path.parent() {
        std::fs::create_dir_all(d).unwrap();
    }
    std::fs::write(path, content).unwrap_or_else(|e| panic!("cannot write {}: {e}", path.display()));
    true
}

fn rel_repo(_from: &Path) -> String {
    // absolute path through $VERIF_REPO (a symlink or a scratch worktree); never a literal /repo
    verif_repo().to_string_lossy().to_string()
}

fn glue_for(p: &ProgSpec) -> String {
    let mut s = String::new();
    s.push_str("use crate::support::*;\n");
    s.push_str("pub fn run(run: &Run) -> serde_json::Value {\n");
    s.push_str("    let log = Log::new();\n");
    s.push_str("    let mut feeders: Vec<Box<dyn Feeder>> = vec![];\n");
    let mut ins: Vec<(usize, &crate::spec::InSpec)> = p.inputs.iter().enumerate().collect();
    ins.sort_by(|a, b| a.1.name.cmp(&b.1.name));
    for (i, inp) in &ins {
        s.push_str(&format!(
            "    let ({n}, __f) = feed::<{t}>(run, {i}); feeders.push(__f);\n",
            n = inp.name,
            t = inp.ty.rust(),
            i = i
        ));
    }
    let mut sings: Vec<(usize, &crate::spec::InSpec)> = p.sing_inputs.iter().enumerate().collect();
    sings.sort_by(|a, b| a.1.name.cmp(&b.1.name));
    for (i, inp) in &sings {
        s.push_str(&format!(
            "    let {n}: {t} = run.sing({i});\n",
            n = inp.name,
            t = inp.ty.rust(),
            i = i
        ));
    }
    let mut outs: Vec<&crate::spec::OutSpec> = p.outputs.iter().collect();
    outs.sort_by(|a, b| a.name.cmp(&b.name));
    s.push_str(&format!("    let mut outputs = g::{}::EmbeddedOutputs {{\n", p.name));
    for o in &outs {
        s.push_str(&format!(
            "        {n}: log.sink::<{t}>(\"{n}\"),\n",
            n = o.name,
            t = o.ty.rust()
        ));
    }
    s.push_str("    };\n");
    let mut args: Vec<String> = vec![];
    for (_, inp) in &sings {
        args.push(inp.name.clone());
    }
    for (_, inp) in &ins {
        args.push(inp.name.clone());
    }
    args.push("&mut outputs".into());
    s.push_str("    let (ticks, q) = {\n");
    s.push_str(&format!("        let mut flow = g::{}({});\n", p.name, args.join(", ")));
    s.push_str("        block_on_local(drive(&mut flow, run, &log, &mut feeders))\n");
    s.push_str("    };\n");
    s.push_str("    finish(run, &log, ticks, q)\n}\n");
    s
}

struct Files {
    files: Vec<(PathBuf, String)>,
}

fn crate_names(slot: &str) -> (String, String) {
    let s: String = slot.chars().map(|c| if c.is_ascii_alphanumeric() { c } else { '_' }).collect();
    (format!("vhp_{s}"), format!("vhr_{s}"))
}

fn layout(slot: &str, dir: &Path, progs: &[ProgSpec], specials: &[Special], excluded: &BTreeMap<String, Failure>) -> Files {
    let repo = rel_repo(dir);
    // cargo hashes workspace members by their path relative to the workspace root, so crates of
    // different slots would collide in the shared target directory: give them distinct names
    let (pc, rc) = crate_names(slot);
    let mut files = vec![];
    let ws = r#"[workspace]
members = ["vh_progs", "vh_run"]
resolver = "2"

[workspace.dependencies]
stageleft = "0.15.1"
stageleft_tool = "0.15.1"

[profile.dev]
debug = false
opt-level = 0
incremental = false
overflow-checks = true
debug-assertions = true

[profile.dev.package."*"]
debug = false
"#;
    files.push((dir.join("Cargo.toml"), ws.to_string()));
    files.push((
        dir.join("vh_progs/Cargo.toml"),
        format!(
            r#"[package]
name = "{pc}"
version = "0.0.0"
edition = "2024"
publish = false

[features]
stageleft_macro_entrypoint = ["hydro_lang/stageleft_macro_entrypoint"]

[dependencies]
hydro_lang = {{ path = "{repo}/hydro_lang", default-features = false }}
stageleft.workspace = true
serde = {{ version = "1", features = ["derive"] }}

[build-dependencies]
stageleft_tool.workspace = true
"#
        ),
    ));
    files.push((
        dir.join("vh_progs/build.rs"),
        "fn main() {\n    stageleft_tool::gen_final!();\n}\n".to_string(),
    ));
    // lib.rs
    let any_corpus = progs.iter().any(|p| p.is_corpus()) || !specials.is_empty();
    let mut lib = String::new();
    lib.push_str("#![allow(warnings)]\n#[cfg(stageleft_runtime)]\nhydro_lang::setup!();\n\n");
    if any_corpus {
        lib.push_str("pub mod corpus;\npub use corpus::*;\n");
        files.push((dir.join("vh_progs/src/corpus.rs"), CORPUS_RS.to_string()));
        lib.push_str("pub mod net;\n");
        files.push((dir.join("vh_progs/src/net.rs"), NET_RS.to_string()));
    }
    let mut gen_mods = vec![];
    for p in progs {
        if let Some(src) = &p.src {
            if matches!(excluded.get(&p.name), Some(f) if f.stage == Stage::Stage1) {
                continue;
            }
            gen_mods.push(p.name.clone());
            let body = format!(
                "#![allow(warnings)]\nuse hydro_lang::prelude::*;\nuse hydro_lang::live_collections::stream::{{NoOrder, TotalOrder, ExactlyOnce, AtLeastOnce}};\nuse hydro_lang::location::Location;\n\n{src}\n"
            );
            files.push((dir.join(format!("vh_progs/src/gp/{}.rs", p.name)), body));
        }
    }
    if !gen_mods.is_empty() {
        lib.push_str("pub mod gp {\n");
        for m in &gen_mods {
            lib.push_str(&format!("    pub mod {m};\n"));
        }
        lib.push_str("}\n");
        for m in &gen_mods {
            lib.push_str(&format!("pub use gp::{m}::{m};\n"));
        }
    }
    files.push((dir.join("vh_progs/src/lib.rs"), lib));

    files.push((
        dir.join("vh_run/Cargo.toml"),
        format!(
            r#"[package]
name = "{rc}"
version = "0.0.0"
edition = "2024"
publish = false

[dependencies]
hydro_lang = {{ path = "{repo}/hydro_lang", default-features = false, features = ["embedded_runtime"] }}
{pc} = {{ path = "../vh_progs", features = ["stageleft_macro_entrypoint"] }}
dfir_rs = {{ path = "{repo}/dfir_rs", default-features = false }}
stageleft.workspace = true
tokio = {{ version = "1.29.0", features = ["full"] }}
serde = {{ version = "1", features = ["derive"] }}
serde_json = "1"
futures = "0.3"
bytes = "1"
bincode = "1.3.1"

[build-dependencies]
hydro_lang = {{ path = "{repo}/hydro_lang", default-features = false, features = ["build"] }}
{pc} = {{ path = "../vh_progs" }}
prettyplease = {{ version = "0.2.0", features = ["verbatim"] }}
serde_json = "1"
"#
        ),
    ));

    // build.rs
    let mut b = String::new();
    b.push_str("#![allow(warnings)]\nuse std::cell::Cell;\nuse hydro_lang::location::Location;\nuse hydro_lang::prelude::*;\n\n");
    b.push_str(
        r#"fn record(status: &mut Vec<(String, String, String)>, out_dir: &str, name: &str, glue: &str,
          f: impl FnOnce(&Cell<&'static str>) -> String) {
    let phase: Cell<&'static str> = Cell::new("flow");
    let r = std::panic::catch_unwind(std::panic::AssertUnwindSafe(|| f(&phase)));
    match r {
        Ok(code) => {
            std::fs::write(format!("{out_dir}/{name}.rs"), code).unwrap();
            std::fs::write(format!("{out_dir}/glue_{name}.rs"), glue).unwrap();
            status.push((name.to_string(), "ok".to_string(), String::new()));
        }
        Err(p) => {
            let msg = if let Some(s) = p.downcast_ref::<&str>() { s.to_string() }
                else if let Some(s) = p.downcast_ref::<String>() { s.clone() } else { "<panic>".to_string() };
            std::fs::write(format!("{out_dir}/{name}.rs"), "").unwrap();
            std::fs::write(format!("{out_dir}/glue_{name}.rs"),
                "pub fn run(run: &crate::support::Run) -> serde_json::Value { serde_json::json!({\"p\": run.p, \"id\": run.id, \"error\": \"generation failed\"}) }\n").unwrap();
            status.push((name.to_string(), phase.get().to_string(), msg));
        }
    }
}

fn main() {
    println!("cargo::rerun-if-changed=build.rs");
    println!("cargo::rerun-if-changed=glue");
    let out_dir = std::env::var("OUT_DIR").unwrap();
    std::panic::set_hook(Box::new(|_| {}));
    let mut status: Vec<(String, String, String)> = vec![];
"#,
    );
    let mut mains = String::new();
    let mut dispatch = String::new();
    for p in progs {
        if excluded.contains_key(&p.name) {
            continue;
        }
        let n = &p.name;
        let glue = if p.no_run {
            "pub fn run(run: &crate::support::Run) -> serde_json::Value { serde_json::json!({\"p\": run.p, \"id\": run.id, \"error\": \"compile-only program\"}) }\n".to_string()
        } else {
            glue_for(p)
        };
        files.push((dir.join(format!("vh_run/glue/{n}.rs")), glue));
        let mut decl = String::new();
        let mut args = String::from("&process");
        let mut withs = format!(".with_process(&process, \"{n}\")");
        for l in &p.locs {
            if l == "p2" {
                decl.push_str("        let process2 = flow.process::<()>();\n");
                args.push_str(", &process2");
                withs.push_str(&format!(".with_process(&process2, \"{n}_p2\")"));
            } else if l == "c" {
                decl.push_str("        let cluster = flow.cluster::<()>();\n");
                args.push_str(", &cluster");
                withs.push_str(&format!(".with_cluster(&cluster, \"{n}_c\")"));
            }
        }
        b.push_str(&format!(
            r#"    record(&mut status, &out_dir, "{n}", include_str!("glue/{n}.rs"), |phase| {{
        let mut flow = hydro_lang::compile::builder::FlowBuilder::new();
        let process = flow.process::<()>();
{decl}        {pc}::{n}({args});
        phase.set("compile");
        let code = flow{withs}.generate_embedded("{pc}");
        phase.set("unparse");
        prettyplease::unparse(&code)
    }});
"#
        ));
        mains.push_str(&format!(
            "mod r_{n} {{\n    pub mod g {{ include!(concat!(env!(\"OUT_DIR\"), \"/{n}.rs\")); }}\n    include!(concat!(env!(\"OUT_DIR\"), \"/glue_{n}.rs\"));\n}}\n"
        ));
        dispatch.push_str(&format!("        \"{n}\" => Some(r_{n}::run(run)),\n"));
    }
    for sp in specials {
        if excluded.contains_key(&sp.name) {
            continue;
        }
        let n = &sp.name;
        files.push((dir.join(format!("vh_run/glue/{n}.rs")), sp.glue.replace("{PC}", &pc)));
        b.push_str(&format!(
            "    record(&mut status, &out_dir, \"{n}\", include_str!(\"glue/{n}.rs\"), |phase| {{\n{}\n    }});\n",
            sp.build_snippet.replace("{PC}", &pc)
        ));
        mains.push_str(&format!(
            "mod r_{n} {{\n    pub mod g {{ include!(concat!(env!(\"OUT_DIR\"), \"/{n}.rs\")); }}\n    include!(concat!(env!(\"OUT_DIR\"), \"/glue_{n}.rs\"));\n}}\n"
        ));
        dispatch.push_str(&format!("        \"{n}\" => Some(r_{n}::run(run)),\n"));
    }
    b.push_str(
        r#"    let js: Vec<serde_json::Value> = status.iter().map(|(n, p, m)| serde_json::json!({"name": n, "phase": p, "msg": m})).collect();
    std::fs::write(format!("{out_dir}/status.json"), serde_json::to_string(&js).unwrap()).unwrap();
    // also leave a copy next to the crate so the host finds it without knowing OUT_DIR
    let manifest = std::env::var("CARGO_MANIFEST_DIR").unwrap();
    std::fs::write(format!("{manifest}/../status.json"), serde_json::to_string(&js).unwrap()).unwrap();
}
"#,
    );
    files.push((dir.join("vh_run/build.rs"), b));
    let main = format!(
        "#![allow(warnings)]\nmod support;\n{mains}\nfn dispatch(run: &support::Run) -> Option<serde_json::Value> {{\n    match run.p.as_str() {{\n{dispatch}        _ => None,\n    }}\n}}\nfn main() {{\n    support::main_loop(&dispatch);\n}}\n"
    );
    files.push((dir.join("vh_run/src/main.rs"), main));
    files.push((dir.join("vh_run/src/support.rs"), SUPPORT_RS.to_string()));
    Files { files }
}

fn sync_files(dir: &Path, f: &Files) {
    // remove stale generated sources / glue that are no longer part of the batch
    let keep: BTreeSet<PathBuf> = f.files.iter().map(|(p, _)| p.clone()).collect();
    for sub in ["vh_progs/src/gp", "vh_run/glue"] {
        if let Ok(rd) = std::fs::read_dir(dir.join(sub)) {
            for e in rd.flatten() {
                if !keep.contains(&e.path()) {
                    let _ = std::fs::remove_file(e.path());
                }
            }
        }
    }
    for (p, c) in &f.files {
        write_if_changed(p, c);
    }
    let lock = dir.join("Cargo.lock");
    if !lock.exists() {
        let src = verif_repo().join("Cargo.lock");
        let _ = std::fs::copy(src, lock);
    }
}

fn cargo_env(cmd: &mut Command) {
    cmd.env("CARGO_NET_OFFLINE", "true")
        .env("CARGO_TARGET_DIR", gen_target_dir())
        .env("CARGO_TERM_COLOR", "never")
        .env("RUST_BACKTRACE", "0")
        .env("RUSTFLAGS", "--cfg hydro_project_hydro_verif");
}

fn collect_files(span: &Value, out: &mut Vec<String>) {
    if let Some(f) = span.get("file_name").and_then(|x| x.as_str()) {
        out.push(f.to_string());
    }
    if let Some(exp) = span.get("expansion") {
        if let Some(s) = exp.get("span") {
            collect_files(s, out);
        }
    }
}

/// Attribute a rustc error message to a program: returns (program, stage).
fn attribute(msg: &Value, names: &BTreeSet<String>) -> Option<(String, Stage)> {
    let mut files = vec![];
    if let Some(spans) = msg.get("spans").and_then(|s| s.as_array()) {
        // primary spans first
        for sp in spans.iter().filter(|s| s["is_primary"].as_bool() == Some(true)) {
            collect_files(sp, &mut files);
        }
        for sp in spans.iter().filter(|s| s["is_primary"].as_bool() != Some(true)) {
            collect_files(sp, &mut files);
        }
    }
    if let Some(children) = msg.get("children").and_then(|s| s.as_array()) {
        for c in children {
            if let Some(spans) = c.get("spans").and_then(|s| s.as_array()) {
                for sp in spans {
                    collect_files(sp, &mut files);
                }
            }
        }
    }
    for f in &files {
        let p = Path::new(f);
        let stem = p.file_stem().and_then(|s| s.to_str()).unwrap_or("");
        let parent = p.parent().and_then(|d| d.file_name()).and_then(|s| s.to_str()).unwrap_or("");
        if parent == "gp" && names.contains(stem) && f.contains("vh_progs") {
            return Some((stem.to_string(), Stage::Stage1));
        }
        if parent == "out" {
            if let Some(n) = stem.strip_prefix("glue_") {
                if names.contains(n) {
                    return Some((n.to_string(), Stage::Glue));
                }
            }
            if names.contains(stem) {
                return Some((stem.to_string(), Stage::Stage2));
            }
        }
    }
    None
}

/// Build a batch in `slot`. Never panics on build problems: everything is reported.
pub fn build(slot: &str, progs: &[ProgSpec], specials: &[Special]) -> BuildReport {
    let t0 = std::time::Instant::now();
    let dir = slot_dir(slot);
    std::fs::create_dir_all(&dir).unwrap();
    let mut rep = BuildReport::default();
    let names: BTreeSet<String> = progs
        .iter()
        .map(|p| p.name.clone())
        .chain(specials.iter().map(|s| s.name.clone()))
        .collect();
    let mut excluded: BTreeMap<String, Failure> = BTreeMap::new();
    let quiet = std::env::var("VH_VERBOSE").is_err();
    for round in 0..6 {
        rep.rounds = round + 1;
        let files = layout(slot, &dir, progs, specials, &excluded);
        sync_files(&dir, &files);
        let mut cmd = Command::new("cargo");
        cmd.current_dir(&dir)
            .args(["build", "--offline", "-p", &crate_names(slot).1, "--message-format=json"])
            .stdout(Stdio::piped())
            .stderr(Stdio::piped());
        cargo_env(&mut cmd);
        let out = match cmd.output() {
            Ok(o) => o,
            Err(e) => {
                rep.infra = Some(format!("cannot run cargo: {e}"));
                break;
            }
        };
        let stdout = String::from_utf8_lossy(&out.stdout);
        let mut errors: Vec<Value> = vec![];
        let mut runner: Option<PathBuf> = None;
        let mut out_dir: Option<PathBuf> = None;
        for line in stdout.lines() {
            let Ok(v) = serde_json::from_str::<Value>(line) else { continue };
            match v["reason"].as_str() {
                Some("compiler-message") => {
                    if v["message"]["level"].as_str() == Some("error") {
                        errors.push(v["message"].clone());
                    }
                }
                Some("build-script-executed") => {
                    if v["package_id"].as_str().map(|p| p.contains("vh_run") || p.contains(crate_names(slot).1.as_str())).unwrap_or(false) {
                        if let Some(d) = v["out_dir"].as_str() {
                            out_dir = Some(PathBuf::from(d));
                        }
                    }
                }
                Some("compiler-artifact") => {
                    if v["target"]["name"].as_str() == Some(crate_names(slot).1.as_str())
                        && v["target"]["kind"].as_array().map(|k| k.iter().any(|x| x == "bin")).unwrap_or(false)
                    {
                        if let Some(e) = v["executable"].as_str() {
                            runner = Some(PathBuf::from(e));
                        }
                    }
                }
                _ => {}
            }
        }
        // build-script status (per-program generation failures)
        let status_path = out_dir.map(|d| d.join("status.json")).unwrap_or_else(|| dir.join("status.json"));
        if let Ok(txt) = std::fs::read_to_string(&status_path) {
            if let Ok(js) = serde_json::from_str::<Vec<Value>>(&txt) {
                for s in js {
                    let n = s["name"].as_str().unwrap_or("").to_string();
                    let phase = s["phase"].as_str().unwrap_or("");
                    if phase != "ok" && !excluded.contains_key(&n) {
                        let stage = if phase == "flow" { Stage::FlowBuild } else { Stage::Compile };
                        // generation failures are left in place (the stub glue answers), but recorded
                        rep.failed.insert(
                            n,
                            Failure { stage, msg: format!("[{phase}] {}", s["msg"].as_str().unwrap_or("")) },
                        );
                    }
                }
            }
        }
        if out.status.success() {
            rep.runner = runner;
            if rep.runner.is_none() {
                rep.infra = Some("cargo succeeded but no runner executable was reported".into());
            }
            break;
        }
        // failed: attribute
        let mut newly = 0;
        let mut unattributed: Vec<String> = vec![];
        for e in &errors {
            let rendered = e["rendered"].as_str().unwrap_or("").to_string();
            if rendered.starts_with("error: aborting due to") || rendered.starts_with("error: could not compile") {
                continue;
            }
            match attribute(e, &names) {
                Some((n, stage)) => {
                    if !excluded.contains_key(&n) {
                        let short: String = rendered.lines().take(12).collect::<Vec<_>>().join("\n");
                        excluded.insert(n.clone(), Failure { stage, msg: short });
                        newly += 1;
                    }
                }
                None => unattributed.push(rendered.lines().take(12).collect::<Vec<_>>().join("\n")),
            }
        }
        if !quiet {
            eprintln!("build round {round}: {} errors, {newly} newly excluded, {} unattributed", errors.len(), unattributed.len());
        }
        if newly == 0 {
            let stderr = String::from_utf8_lossy(&out.stderr);
            let tail: String = stderr.lines().rev().take(30).collect::<Vec<_>>().into_iter().rev().collect::<Vec<_>>().join("\n");
            rep.infra = Some(format!(
                "build failed and no error could be attributed to a program:\n{}\n{}",
                unattributed.join("\n---\n"),
                tail
            ));
            break;
        }
    }
    for (n, f) in &excluded {
        rep.failed.insert(n.clone(), f.clone());
    }
    for n in &names {
        if !rep.failed.contains_key(n) {
            rep.ok.insert(n.clone());
        }
    }
    rep.build_secs = t0.elapsed().as_secs_f64();
    rep
}

#[derive(Clone, Debug, Serialize)]
pub struct RunReq {
    pub p: String,
    pub id: u64,
    pub inputs: Vec<Vec<Vec<Value>>>,
    pub sing: Vec<Value>,
    pub min_extra: usize,
    pub max_extra: usize,
    pub quiet: Vec<String>,
    pub extra: Value,
}

impl RunReq {
    pub fn new(p: &str, id: u64, s: &Schedule) -> RunReq {
        RunReq {
            p: p.to_string(),
            id,
            inputs: s.inputs.clone(),
            sing: s.sing.clone(),
            min_extra: 3,
            max_extra: 12,
            quiet: vec![],
            extra: Value::Null,
        }
    }
}

/// Execute the runner on a list of runs. Err = infrastructure problem (inconclusive).
pub fn run(slot: &str, runner: &Path, reqs: &[RunReq], timeout_secs: u64) -> Result<BTreeMap<(String, u64), RunResult>, String> {
    let dir = slot_dir(slot);
    let runs_path = dir.join(format!("runs-{}.json", std::process::id()));
    std::fs::write(&runs_path, serde_json::to_string(reqs).unwrap()).map_err(|e| e.to_string())?;
    let out_path = dir.join(format!("results-{}.jsonl", std::process::id()));
    let out_file = std::fs::File::create(&out_path).map_err(|e| e.to_string())?;
    let mut child = Command::new(runner)
        .arg(&runs_path)
        .stdout(out_file)
        .stderr(Stdio::null())
        .spawn()
        .map_err(|e| format!("cannot start runner: {e}"))?;
    let t0 = std::time::Instant::now();
    let status = loop {
        match child.try_wait() {
            Ok(Some(st)) => break st,
            Ok(None) => {
                if t0.elapsed().as_secs() > timeout_secs {
                    let _ = child.kill();
                    let _ = child.wait();
                    return Err(format!("runner watchdog: no completion after {timeout_secs}s"));
                }
                std::thread::sleep(std::time::Duration::from_millis(20));
            }
            Err(e) => return Err(format!("waiting for runner: {e}")),
        }
    };
    let txt = std::fs::read_to_string(&out_path).map_err(|e| e.to_string())?;
    let mut res = BTreeMap::new();
    for line in txt.lines() {
        let v: Value = serde_json::from_str(line).map_err(|e| format!("runner output is not JSON: {e}: {line}"))?;
        let p = v["p"].as_str().unwrap_or("").to_string();
        let id = v["id"].as_u64().unwrap_or(0);
        let mut rr = RunResult {
            ticks: v["ticks"].as_u64().unwrap_or(0) as usize,
            quiescent: v["quiescent"].as_bool().unwrap_or(false),
            outs: BTreeMap::new(),
            panic: None,
        };
        if let Some(pm) = v.get("panic").and_then(|x| x.as_str()) {
            rr.panic = Some(pm.to_string());
        }
        if let Some(e) = v.get("error").and_then(|x| x.as_str()) {
            rr.panic = Some(format!("runner-error: {e}"));
        }
        if let Some(outs) = v.get("outs").and_then(|o| o.as_object()) {
            for (k, arr) in outs {
                let items: Vec<(usize, Value)> = arr
                    .as_array()
                    .map(|a| {
                        a.iter()
                            .map(|tv| (tv[0].as_u64().unwrap_or(0) as usize, tv[1].clone()))
                            .collect()
                    })
                    .unwrap_or_default();
                rr.outs.insert(k.clone(), items);
            }
        }
        res.insert((p, id), rr);
    }
    if !status.success() && res.len() < reqs.len() {
        return Err(format!(
            "runner exited with {status} after {} of {} runs",
            res.len(),
            reqs.len()
        ));
    }
    let _ = std::fs::remove_file(&runs_path);
    let _ = std::fs::remove_file(&out_path);
    let _ = json!(null);
    Ok(res)
}
