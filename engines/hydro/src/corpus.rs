//! Host-side registry of the hand-written corpus (templates/corpus.rs): program metadata and the
//! reference answers ("plain iterator semantics on the concatenated input", DESIGN §4 C29/C30).
use std::collections::BTreeMap;

use serde::de::DeserializeOwned;
use serde::Serialize;
use serde_json::{json, Value};

use crate::spec::*;
use crate::ty::Ty;

pub struct Flat {
    pub inputs: Vec<Vec<Value>>,
    pub sing: Vec<Value>,
}

#[derive(Clone)]
pub enum Ref {
    /// expected eventual content. Seq: the sequence; Bag: any order; KeyedSeq: any interleaving
    /// that keeps each key's order; Final: the items of the final tick (any order).
    Eventual(fn(&Flat) -> Vec<Value>),
    /// expected sequence of groups; inside a group the order is not specified by the docs
    Grouped(fn(&Flat) -> Vec<Vec<Value>>),
    /// expected items per tick (ticks 0..n), given the schedule
    PerTick(fn(&Schedule, usize) -> Vec<Vec<Value>>),
}

/// The adversary the (weakened) input type admits (C32).
#[derive(Clone, Copy, Debug, PartialEq, Eq)]
pub enum Adv {
    /// input order is part of the contract: only tick partitions
    Fixed,
    /// NoOrder: every permutation
    Perm,
    /// TotalOrder + AtLeastOnce: adjacent (stuttering) duplication
    Stutter,
    /// NoOrder + AtLeastOnce: permutation and duplication
    PermDup,
    /// keyed, ordered per key: cross-key interleavings
    KeyInterleave,
}

pub struct CorpusProg {
    pub spec: ProgSpec,
    pub refs: BTreeMap<String, Ref>,
    /// per input (C32 micro-programs only)
    pub adv: Vec<Adv>,
}

fn dec<T: DeserializeOwned>(v: &[Value]) -> Vec<T> {
    v.iter().map(|x| serde_json::from_value(x.clone()).expect("decode")).collect()
}
fn enc<T: Serialize>(v: Vec<T>) -> Vec<Value> {
    v.into_iter().map(|x| serde_json::to_value(x).unwrap()).collect()
}
fn ints(f: &Flat, i: usize) -> Vec<i64> {
    dec(&f.inputs[i])
}
fn kvs(f: &Flat, i: usize) -> Vec<(i64, i64)> {
    dec(&f.inputs[i])
}
fn keys_in_order(kv: &[(i64, i64)]) -> Vec<i64> {
    let mut ks = vec![];
    for (k, _) in kv {
        if !ks.contains(k) {
            ks.push(*k);
        }
    }
    ks
}
fn per_key<T>(kv: &[(i64, i64)], f: impl Fn(i64, &[i64]) -> Vec<T>) -> Vec<(i64, T)> {
    let mut out = vec![];
    for k in keys_in_order(kv) {
        let vs: Vec<i64> = kv.iter().filter(|(k2, _)| *k2 == k).map(|(_, v)| *v).collect();
        for x in f(k, &vs) {
            out.push((k, x));
        }
    }
    out
}
/// batches of input i per tick, padded with empty batches up to n ticks
fn batches<T: DeserializeOwned>(s: &Schedule, i: usize, n: usize) -> Vec<Vec<T>> {
    let mut out: Vec<Vec<T>> = s.inputs[i].iter().map(|b| dec(b)).collect();
    while out.len() < n {
        out.push(vec![]);
    }
    out
}
fn per_tick<T: DeserializeOwned, U: Serialize>(
    s: &Schedule,
    n: usize,
    f: impl Fn(&[T]) -> Vec<U>,
) -> Vec<Vec<Value>> {
    batches::<T>(s, 0, n).iter().map(|b| enc(f(b))).collect()
}

struct B {
    progs: Vec<CorpusProg>,
}

impl B {
    fn add(
        &mut self,
        name: &str,
        inputs: &[&str],
        sing: &[&str],
        outs: &[(&str, OutKind, Option<Promise>, Ref)],
        traits: Traits,
    ) {
        let mut refs = BTreeMap::new();
        let mut outputs = vec![];
        for (i, (ty, kind, promise, r)) in outs.iter().enumerate() {
            let oname = format!("out{i}");
            outputs.push(OutSpec {
                name: oname.clone(),
                ty: Ty::parse(ty),
                kind: kind.clone(),
                promise: promise.clone(),
                delay: 0,
                shift_of: None,
                slice: vec![],
                concat: false,
            });
            refs.insert(oname, r.clone());
        }
        let keyed_prog = name.contains("keyed") || name.contains("value_counts") || name.contains("key_count");
        let spec = ProgSpec {
            name: name.to_string(),
            src: None,
            inputs: inputs
                .iter()
                .enumerate()
                .map(|(i, t)| InSpec {
                    name: format!("in{i}"),
                    ty: Ty::parse(t),
                    keyed: keyed_prog && Ty::parse(t).is_pair(),
                })
                .collect(),
            sing_inputs: sing
                .iter()
                .enumerate()
                .map(|(i, t)| InSpec { name: format!("s{i}"), ty: Ty::parse(t), keyed: false })
                .collect(),
            outputs,
            traits,
            locs: vec![],
            no_run: false,
        };
        self.progs.push(CorpusProg { spec, refs, adv: vec![] });
    }
}

fn safe(stateful: bool, classes: &[&str]) -> Traits {
    Traits {
        safe: true,
        stateful_top: stateful,
        cycle_or_defer: false,
        tick_program: false,
        ops: 0,
        shared: false,
        classes: classes.iter().map(|s| s.to_string()).collect(),
        avoided: vec![],
    }
}
fn tickp(cycle: bool, classes: &[&str]) -> Traits {
    Traits {
        safe: false,
        stateful_top: false,
        cycle_or_defer: cycle,
        tick_program: true,
        ops: 0,
        shared: false,
        classes: classes.iter().map(|s| s.to_string()).collect(),
        avoided: vec![],
    }
}

use OutKind::*;

pub fn corpus() -> Vec<CorpusProg> {
    let mut b = B { progs: vec![] };
    // ------------------------------------------------------------------ safe top-level
    b.add(
        "c_map_filter",
        &["i64"],
        &[],
        &[("i64", Seq, None, Ref::Eventual(|f| enc(ints(f, 0).into_iter().map(|x| x * 2 + 1).filter(|x| x % 3 != 0).collect())))],
        safe(false, &["stateless", "ordered"]),
    );
    b.add(
        "c_flat_map",
        &["i64"],
        &[],
        &[("i64", Seq, None, Ref::Eventual(|f| enc(ints(f, 0).into_iter().flat_map(|x| vec![x, x + 10]).collect())))],
        safe(false, &["stateless", "ordered"]),
    );
    b.add(
        "c_filter_map_enumerate",
        &["i64"],
        &[],
        &[(
            "(usize,i64)",
            Seq,
            None,
            Ref::Eventual(|f| {
                enc(ints(f, 0).into_iter().filter(|x| x % 2 == 0).map(|x| x / 2).enumerate().collect())
            }),
        )],
        safe(true, &["enumerate", "ordered"]),
    );
    b.add(
        "c_scan_sum",
        &["i64"],
        &[],
        &[(
            "i64",
            Seq,
            None,
            Ref::Eventual(|f| {
                let mut acc = 0;
                enc(ints(f, 0)
                    .into_iter()
                    .map(|x| {
                        acc += x;
                        acc
                    })
                    .collect())
            }),
        )],
        safe(true, &["scan", "ordered"]),
    );
    b.add(
        "c_scan_stop",
        &["i64"],
        &[],
        &[(
            "i64",
            Seq,
            None,
            Ref::Eventual(|f| {
                let mut acc = 0;
                let mut out = vec![];
                for x in ints(f, 0) {
                    acc += x;
                    if acc > 6 {
                        break;
                    }
                    out.push(acc);
                }
                enc(out)
            }),
        )],
        safe(true, &["scan", "scan-terminate", "ordered"]),
    );
    b.add(
        "c_unique",
        &["i64"],
        &[],
        &[(
            "i64",
            Seq,
            None,
            Ref::Eventual(|f| {
                let mut seen = vec![];
                for x in ints(f, 0) {
                    if !seen.contains(&x) {
                        seen.push(x);
                    }
                }
                enc(seen)
            }),
        )],
        safe(true, &["unique", "ordered"]),
    );
    b.add(
        "c_limit",
        &["i64"],
        &[],
        &[("i64", Seq, None, Ref::Eventual(|f| enc(ints(f, 0).into_iter().take(3).collect())))],
        safe(true, &["limit", "ordered"]),
    );
    fn join_pairs(a: &[(i64, i64)], b: &[(i64, i64)]) -> Vec<(i64, (i64, i64))> {
        let mut out = vec![];
        for (k, v) in a {
            for (k2, v2) in b {
                if k == k2 {
                    out.push((*k, (*v, *v2)));
                }
            }
        }
        out
    }
    b.add(
        "c_join",
        &["(i64,i64)", "(i64,i64)"],
        &[],
        &[("(i64,(i64,i64))", Bag, None, Ref::Eventual(|f| enc(join_pairs(&kvs(f, 0), &kvs(f, 1)))))],
        safe(true, &["join"]),
    );
    b.add(
        "c_join_count",
        &["(i64,i64)", "(i64,i64)"],
        &[],
        &[(
            "usize",
            Final,
            Some(Promise::MonoSingleton),
            Ref::Eventual(|f| enc(vec![join_pairs(&kvs(f, 0), &kvs(f, 1)).len()])),
        )],
        safe(true, &["join", "count"]),
    );
    b.add(
        "c_join_chain3",
        &["(i64,i64)", "(i64,i64)"],
        &[],
        &[(
            "(i64,(i64,i64))",
            Bag,
            None,
            Ref::Eventual(|f| {
                let a = kvs(f, 0);
                let bb = kvs(f, 1);
                let ab: Vec<(i64, i64)> = join_pairs(&a, &bb).into_iter().map(|(k, (x, y))| (x, k + y)).collect();
                enc(join_pairs(&ab, &bb))
            }),
        )],
        Traits { shared: true, ..safe(true, &["join", "tee"]) },
    );
    b.add(
        "c_cross_product",
        &["i64", "i64"],
        &[],
        &[(
            "(i64,i64)",
            Bag,
            None,
            Ref::Eventual(|f| {
                let mut out = vec![];
                for x in ints(f, 0) {
                    for y in ints(f, 1) {
                        out.push((x, y));
                    }
                }
                enc(out)
            }),
        )],
        safe(true, &["cross_product"]),
    );
    b.add(
        "c_cross_bounded",
        &["i64"],
        &[],
        &[(
            "(i64,i64)",
            Seq,
            None,
            Ref::Grouped(|f| ints(f, 0).into_iter().map(|x| enc(vec![(x, 10i64), (x, 20)])).collect()),
        )],
        safe(true, &["cross_product", "bounded-side", "ordered"]),
    );
    b.add(
        "c_join_bounded",
        &["(i64,i64)"],
        &[],
        &[(
            "(i64,(i64,i64))",
            Seq,
            None,
            Ref::Grouped(|f| {
                let bb = vec![(0i64, 100i64), (1, 101), (1, 102), (3, 103)];
                kvs(f, 0).into_iter().map(|kv| enc(join_pairs(&[kv], &bb))).collect()
            }),
        )],
        safe(true, &["join", "bounded-side", "ordered"]),
    );
    b.add(
        "c_anti_join_bounded",
        &["(i64,i64)"],
        &[],
        &[(
            "(i64,i64)",
            Seq,
            None,
            Ref::Eventual(|f| enc(kvs(f, 0).into_iter().filter(|(k, _)| *k != 1 && *k != 3).collect())),
        )],
        safe(true, &["anti_join", "bounded-side", "ordered"]),
    );
    b.add(
        "c_filter_not_in_bounded",
        &["i64"],
        &[],
        &[("i64", Seq, None, Ref::Eventual(|f| enc(ints(f, 0).into_iter().filter(|x| *x != 0 && *x != 2).collect())))],
        safe(true, &["difference", "bounded-side", "ordered"]),
    );
    b.add(
        "c_chain_bounded_first",
        &["i64"],
        &[],
        &[(
            "i64",
            Seq,
            None,
            Ref::Eventual(|f| {
                let mut v = vec![100i64, 200];
                v.extend(ints(f, 0).into_iter().map(|x| x + 1));
                enc(v)
            }),
        )],
        safe(false, &["chain", "bounded-source", "ordered"]),
    );
    b.add(
        "c_fold_sum",
        &["i64"],
        &[],
        &[("i64", Final, None, Ref::Eventual(|f| enc(vec![ints(f, 0).iter().sum::<i64>()])))],
        safe(true, &["fold"]),
    );
    b.add(
        "c_fold_noorder",
        &["i64", "i64"],
        &[],
        &[(
            "i64",
            Final,
            None,
            Ref::Eventual(|f| enc(vec![ints(f, 0).iter().sum::<i64>() + ints(f, 1).iter().map(|x| x + 100).sum::<i64>()])),
        )],
        safe(true, &["fold", "merge_unordered"]),
    );
    b.add(
        "c_collect_vec",
        &["i64"],
        &[],
        &[("Vec<i64>", Final, None, Ref::Eventual(|f| enc(vec![ints(f, 0)])))],
        safe(true, &["fold"]),
    );
    b.add(
        "c_count",
        &["i64"],
        &[],
        &[("usize", Final, Some(Promise::MonoSingleton), Ref::Eventual(|f| enc(vec![ints(f, 0).len()])))],
        safe(true, &["count"]),
    );
    b.add(
        "c_max_min",
        &["i64"],
        &[],
        &[
            ("i64", Final, None, Ref::Eventual(|f| enc(ints(f, 0).into_iter().max().into_iter().collect()))),
            ("i64", Final, None, Ref::Eventual(|f| enc(ints(f, 0).into_iter().min().into_iter().collect()))),
        ],
        safe(true, &["reduce", "max", "min"]),
    );
    b.add(
        "c_first_last",
        &["i64"],
        &[],
        &[
            ("i64", Final, None, Ref::Eventual(|f| enc(ints(f, 0).first().cloned().into_iter().collect()))),
            ("i64", Final, None, Ref::Eventual(|f| enc(ints(f, 0).last().cloned().into_iter().collect()))),
        ],
        safe(true, &["first", "last"]),
    );
    b.add(
        "c_reduce",
        &["i64"],
        &[],
        &[(
            "i64",
            Final,
            None,
            Ref::Eventual(|f| enc(ints(f, 0).into_iter().reduce(|acc, x| acc * 2 + x).into_iter().collect())),
        )],
        safe(true, &["reduce"]),
    );
    b.add(
        "c_merge_unordered",
        &["i64", "i64"],
        &[],
        &[(
            "i64",
            Bag,
            None,
            Ref::Eventual(|f| {
                let mut v = ints(f, 0);
                v.extend(ints(f, 1).into_iter().map(|x| x + 100));
                enc(v)
            }),
        )],
        safe(false, &["merge_unordered"]),
    );
    b.add(
        "c_singleton_input",
        &["i64"],
        &["i64"],
        &[(
            "i64",
            Seq,
            None,
            Ref::Eventual(|f| {
                let pre: i64 = serde_json::from_value(f.sing[0].clone()).unwrap();
                enc(ints(f, 0).into_iter().map(|n| pre * 1000 + n).collect())
            }),
        )],
        safe(true, &["cross_singleton", "bounded-side", "ordered"]),
    );
    b.add(
        "c_chat_replay",
        &["i64", "i64"],
        &[],
        &[(
            "(i64,i64)",
            Bag,
            None,
            Ref::Eventual(|f| {
                let mut out = vec![];
                for u in ints(f, 0) {
                    for m in ints(f, 1) {
                        out.push((u, m + 1000));
                    }
                }
                enc(out)
            }),
        )],
        safe(true, &["cross_product"]),
    );
    b.add(
        "c_tee_two_outputs",
        &["i64"],
        &[],
        &[
            ("i64", Seq, None, Ref::Eventual(|f| enc(ints(f, 0).into_iter().map(|x| x + 1).filter(|x| x % 2 == 0).collect()))),
            (
                "i64",
                Final,
                None,
                Ref::Eventual(|f| enc(vec![ints(f, 0).into_iter().map(|x| x + 1).fold(0i64, |acc, x| acc * 3 + x)])),
            ),
        ],
        Traits { shared: true, ..safe(true, &["fold", "tee"]) },
    );
    b.add(
        "c_partition",
        &["i64"],
        &[],
        &[
            ("i64", Seq, None, Ref::Eventual(|f| enc(ints(f, 0).into_iter().filter(|x| x % 2 == 0).collect()))),
            ("(usize,i64)", Seq, None, Ref::Eventual(|f| enc(ints(f, 0).into_iter().filter(|x| x % 2 != 0).enumerate().collect()))),
        ],
        safe(true, &["partition", "enumerate", "ordered"]),
    );
    b.add(
        "c_source_iter_fold",
        &["i64"],
        &[],
        &[
            ("i64", Seq, None, Ref::Eventual(|_| enc(vec![10i64]))),
            ("i64", Seq, None, Ref::Eventual(|_| enc(vec![1234i64]))),
            ("i64", Seq, None, Ref::Eventual(|f| enc(ints(f, 0)))),
        ],
        safe(true, &["fold", "bounded-source", "no-replay"]),
    );
    b.add(
        "c_bounded_singleton_cross",
        &["i64"],
        &[],
        &[("i64", Seq, None, Ref::Eventual(|f| enc(ints(f, 0).into_iter().map(|x| x * 100 + 6).collect())))],
        safe(true, &["cross_singleton", "bounded-source", "ordered"]),
    );
    b.add(
        "c_threshold",
        &["i64"],
        &[],
        &[("usize", Seq, None, Ref::Eventual(|f| if ints(f, 0).len() >= 3 { enc(vec![3usize]) } else { vec![] }))],
        safe(true, &["count", "threshold"]),
    );
    b.add(
        "c_singleton_map_filter",
        &["i64"],
        &[],
        &[
            ("i64", Final, None, Ref::Eventual(|f| enc(vec![ints(f, 0).iter().sum::<i64>() * 2]))),
            (
                "i64",
                Final,
                None,
                Ref::Eventual(|f| {
                    let s = ints(f, 0).iter().sum::<i64>();
                    if s % 2 == 0 { enc(vec![s]) } else { vec![] }
                }),
            ),
        ],
        Traits { shared: true, ..safe(true, &["fold", "singleton-ops"]) },
    );
    b.add(
        "c_optional_ops",
        &["i64"],
        &[],
        &[
            ("bool", Final, None, Ref::Eventual(|f| enc(vec![!ints(f, 0).is_empty()]))),
            ("i64", Final, None, Ref::Eventual(|f| enc(vec![ints(f, 0).into_iter().max().unwrap_or(-1)]))),
            ("i64", Final, None, Ref::Eventual(|f| enc(ints(f, 0).first().cloned().into_iter().collect()))),
            ("Option<i64>", Final, None, Ref::Eventual(|f| enc(vec![ints(f, 0).first().cloned()]))),
        ],
        Traits { shared: true, ..safe(true, &["reduce", "optional-ops"]) },
    );
    // ------------------------------------------------------------------ keyed
    b.add(
        "c_keyed_fold",
        &["(i64,i64)"],
        &[],
        &[(
            "(i64,i64)",
            Final,
            Some(Promise::MonoKeys),
            Ref::Eventual(|f| enc(per_key(&kvs(f, 0), |_, vs| vec![vs.iter().fold(0i64, |a, v| a * 2 + v)]))),
        )],
        safe(true, &["keyed", "fold_keyed"]),
    );
    b.add(
        "c_keyed_reduce",
        &["(i64,i64)"],
        &[],
        &[(
            "(i64,i64)",
            Final,
            None,
            Ref::Eventual(|f| enc(per_key(&kvs(f, 0), |_, vs| vec![vs.iter().cloned().reduce(|a, v| a * 3 + v).unwrap()]))),
        )],
        safe(true, &["keyed", "reduce_keyed"]),
    );
    b.add(
        "c_keyed_first",
        &["(i64,i64)"],
        &[],
        &[("(i64,i64)", Bag, Some(Promise::BoundedValue), Ref::Eventual(|f| enc(per_key(&kvs(f, 0), |_, vs| vec![vs[0]]))))],
        safe(true, &["keyed", "first"]),
    );
    b.add(
        "c_keyed_scan",
        &["(i64,i64)"],
        &[],
        &[(
            "(i64,i64)",
            KeyedSeq,
            None,
            Ref::Eventual(|f| {
                enc(per_key(&kvs(f, 0), |_, vs| {
                    let mut acc = 0;
                    vs.iter()
                        .map(|v| {
                            acc += v;
                            acc
                        })
                        .collect()
                }))
            }),
        )],
        safe(true, &["keyed", "scan"]),
    );
    b.add(
        "c_keyed_enumerate",
        &["(i64,i64)"],
        &[],
        &[(
            "(i64,(usize,i64))",
            KeyedSeq,
            None,
            Ref::Eventual(|f| enc(per_key(&kvs(f, 0), |_, vs| vs.iter().cloned().enumerate().collect()))),
        )],
        safe(true, &["keyed", "enumerate"]),
    );
    b.add(
        "c_keyed_map_filter",
        &["(i64,i64)"],
        &[],
        &[(
            "(i64,i64)",
            KeyedSeq,
            None,
            Ref::Eventual(|f| enc(per_key(&kvs(f, 0), |k, vs| vs.iter().map(|v| k * 10 + v).filter(|v| v % 4 != 0).collect()))),
        )],
        safe(false, &["keyed", "stateless"]),
    );
    b.add(
        "c_keyed_limit",
        &["(i64,i64)"],
        &[],
        &[("(i64,i64)", KeyedSeq, None, Ref::Eventual(|f| enc(per_key(&kvs(f, 0), |_, vs| vs.iter().cloned().take(2).collect()))))],
        safe(true, &["keyed", "limit"]),
    );
    b.add(
        "c_keyed_flat_map",
        &["(i64,i64)"],
        &[],
        &[(
            "(i64,i64)",
            KeyedSeq,
            None,
            Ref::Eventual(|f| enc(per_key(&kvs(f, 0), |_, vs| vs.iter().flat_map(|v| vec![*v, *v + 10]).collect()))),
        )],
        safe(false, &["keyed", "stateless"]),
    );
    b.add(
        "c_value_counts",
        &["(i64,i64)"],
        &[],
        &[(
            "(i64,usize)",
            Final,
            Some(Promise::MonoValue),
            Ref::Eventual(|f| enc(per_key(&kvs(f, 0), |_, vs| vec![vs.len()]))),
        )],
        safe(true, &["keyed", "value_counts"]),
    );
    b.add(
        "c_key_count",
        &["(i64,i64)"],
        &[],
        &[("usize", Final, None, Ref::Eventual(|f| enc(vec![keys_in_order(&kvs(f, 0)).len()])))],
        safe(true, &["keyed", "key_count"]),
    );
    b.add(
        "c_keyed_entries_keys",
        &["(i64,i64)"],
        &[],
        &[
            ("(i64,i64)", Bag, None, Ref::Eventual(|f| enc(kvs(f, 0)))),
            ("i64", Bag, None, Ref::Eventual(|f| enc(keys_in_order(&kvs(f, 0))))),
            ("i64", Bag, None, Ref::Eventual(|f| enc(kvs(f, 0).into_iter().map(|(_, v)| v).collect()))),
        ],
        Traits { shared: true, ..safe(true, &["keyed", "unique"]) },
    );
    b.add(
        "c_keyed_join_stream",
        &["(i64,i64)", "(i64,i64)"],
        &[],
        &[("(i64,(i64,i64))", Bag, None, Ref::Eventual(|f| enc(join_pairs(&kvs(f, 0), &kvs(f, 1)))))],
        safe(true, &["keyed", "join"]),
    );
    b.add(
        "c_keyed_unique",
        &["(i64,i64)"],
        &[],
        &[(
            "(i64,i64)",
            Bag,
            None,
            Ref::Eventual(|f| {
                let mut seen: Vec<(i64, i64)> = vec![];
                for kv in kvs(f, 0) {
                    if !seen.contains(&kv) {
                        seen.push(kv);
                    }
                }
                enc(seen)
            }),
        )],
        safe(true, &["keyed", "unique"]),
    );
    b.add(
        "c_keyed_fold_commutative",
        &["(i64,i64)", "(i64,i64)"],
        &[],
        &[(
            "(i64,i64)",
            Final,
            Some(Promise::MonoKeys),
            Ref::Eventual(|f| {
                let mut all = kvs(f, 0);
                all.extend(kvs(f, 1));
                enc(per_key(&all, |_, vs| vec![vs.iter().sum::<i64>()]))
            }),
        )],
        safe(true, &["keyed", "fold_keyed", "merge_unordered"]),
    );
    b.add(
        "c_keyed_threshold",
        &["(i64,i64)"],
        &[],
        &[(
            "(i64,usize)",
            Bag,
            None,
            Ref::Eventual(|f| enc(per_key(&kvs(f, 0), |_, vs| if vs.len() >= 2 { vec![2usize] } else { vec![] }))),
        )],
        safe(true, &["keyed", "value_counts", "threshold"]),
    );
    // ------------------------------------------------------------------ tick programs
    b.add(
        "t_passthrough",
        &["i64"],
        &[],
        &[("i64", PerTickSeq, None, Ref::PerTick(|s, n| per_tick::<i64, i64>(s, n, |b| b.to_vec())))],
        tickp(false, &["batch"]),
    );
    b.add(
        "t_fold_count",
        &["i64"],
        &[],
        &[
            ("i64", PerTickSeq, None, Ref::PerTick(|s, n| per_tick::<i64, i64>(s, n, |b| vec![b.iter().fold(0, |a, x| a * 2 + x)]))),
            ("usize", PerTickSeq, None, Ref::PerTick(|s, n| per_tick::<i64, usize>(s, n, |b| vec![b.len()]))),
        ],
        tickp(false, &["fold", "count"]),
    );
    b.add(
        "t_reduce_max_min",
        &["i64"],
        &[],
        &[
            ("i64", PerTickSeq, None, Ref::PerTick(|s, n| per_tick::<i64, i64>(s, n, |b| b.iter().cloned().max().into_iter().collect()))),
            ("i64", PerTickSeq, None, Ref::PerTick(|s, n| per_tick::<i64, i64>(s, n, |b| b.iter().cloned().min().into_iter().collect()))),
            (
                "i64",
                PerTickSeq,
                None,
                Ref::PerTick(|s, n| per_tick::<i64, i64>(s, n, |b| b.iter().cloned().reduce(|a, x| a * 2 + x).into_iter().collect())),
            ),
        ],
        tickp(false, &["reduce", "max", "min"]),
    );
    b.add(
        "t_first_last",
        &["i64"],
        &[],
        &[
            ("i64", PerTickSeq, None, Ref::PerTick(|s, n| per_tick::<i64, i64>(s, n, |b| b.first().cloned().into_iter().collect()))),
            ("i64", PerTickSeq, None, Ref::PerTick(|s, n| per_tick::<i64, i64>(s, n, |b| b.last().cloned().into_iter().collect()))),
            ("bool", PerTickSeq, None, Ref::PerTick(|s, n| per_tick::<i64, bool>(s, n, |b| vec![b.is_empty()]))),
        ],
        tickp(false, &["first", "last", "is_empty"]),
    );
    b.add(
        "t_sort_limit",
        &["i64"],
        &[],
        &[
            (
                "i64",
                PerTickSeq,
                None,
                Ref::PerTick(|s, n| {
                    per_tick::<i64, i64>(s, n, |b| {
                        let mut v = b.to_vec();
                        v.sort();
                        v
                    })
                }),
            ),
            ("i64", PerTickSeq, None, Ref::PerTick(|s, n| per_tick::<i64, i64>(s, n, |b| b.iter().cloned().take(2).collect()))),
        ],
        tickp(false, &["sort", "limit"]),
    );
    b.add(
        "t_enumerate_unique",
        &["i64"],
        &[],
        &[
            ("(usize,i64)", PerTickSeq, None, Ref::PerTick(|s, n| per_tick::<i64, (usize, i64)>(s, n, |b| b.iter().cloned().enumerate().collect()))),
            (
                "i64",
                PerTickSeq,
                None,
                Ref::PerTick(|s, n| {
                    per_tick::<i64, i64>(s, n, |b| {
                        let mut seen = vec![];
                        for x in b {
                            if !seen.contains(x) {
                                seen.push(*x);
                            }
                        }
                        seen
                    })
                }),
            ),
        ],
        tickp(false, &["enumerate", "unique", "tick-state"]),
    );
    b.add(
        "t_scan",
        &["i64"],
        &[],
        &[(
            "i64",
            PerTickSeq,
            None,
            Ref::PerTick(|s, n| {
                per_tick::<i64, i64>(s, n, |b| {
                    let mut acc = 0;
                    b.iter()
                        .map(|x| {
                            acc += x;
                            acc
                        })
                        .collect()
                })
            }),
        )],
        tickp(false, &["scan", "tick-state"]),
    );
    b.add(
        "t_cross_singleton",
        &["i64"],
        &[],
        &[("(i64,usize)", PerTickSeq, None, Ref::PerTick(|s, n| per_tick::<i64, (i64, usize)>(s, n, |b| b.iter().map(|x| (*x, b.len())).collect())))],
        tickp(false, &["cross_singleton", "count"]),
    );
    b.add(
        "t_join",
        &["(i64,i64)", "(i64,i64)"],
        &[],
        &[(
            "(i64,(i64,i64))",
            PerTickGrouped,
            None,
            Ref::PerTick(|s, n| {
                // one group per left item (in order); encoded as an array of groups
                let a = batches::<(i64, i64)>(s, 0, n);
                let bb = batches::<(i64, i64)>(s, 1, n);
                (0..n)
                    .map(|t| a[t].iter().map(|kv| Value::Array(enc(join_pairs(&[*kv], &bb[t])))).collect())
                    .collect()
            }),
        )],
        tickp(false, &["join", "bounded-side"]),
    );
    b.add(
        "t_cross_product",
        &["i64", "i64"],
        &[],
        &[(
            "(i64,i64)",
            PerTickGrouped,
            None,
            Ref::PerTick(|s, n| {
                let a = batches::<i64>(s, 0, n);
                let bb = batches::<i64>(s, 1, n);
                (0..n)
                    .map(|t| a[t].iter().map(|x| Value::Array(enc(bb[t].iter().map(|y| (*x, *y)).collect()))).collect())
                    .collect()
            }),
        )],
        tickp(false, &["cross_product", "bounded-side"]),
    );
    b.add(
        "t_anti_join",
        &["(i64,i64)", "i64"],
        &[],
        &[
            (
                "(i64,i64)",
                PerTickSeq,
                None,
                Ref::PerTick(|s, n| {
                    let a = batches::<(i64, i64)>(s, 0, n);
                    let bb = batches::<i64>(s, 1, n);
                    (0..n).map(|t| enc(a[t].iter().filter(|(k, _)| !bb[t].contains(k)).cloned().collect())).collect()
                }),
            ),
            (
                "i64",
                PerTickSeq,
                None,
                Ref::PerTick(|s, n| {
                    let a = batches::<(i64, i64)>(s, 0, n);
                    let bb = batches::<i64>(s, 1, n);
                    (0..n).map(|t| enc(a[t].iter().map(|(k, _)| *k).filter(|k| !bb[t].contains(k)).collect())).collect()
                }),
            ),
        ],
        Traits { shared: true, ..tickp(false, &["anti_join", "difference", "bounded-side"]) },
    );
    b.add(
        "t_chain",
        &["i64", "i64"],
        &[],
        &[(
            "i64",
            PerTickSeq,
            None,
            Ref::PerTick(|s, n| {
                let a = batches::<i64>(s, 0, n);
                let bb = batches::<i64>(s, 1, n);
                (0..n)
                    .map(|t| {
                        let mut v: Vec<i64> = a[t].iter().map(|x| x + 100).collect();
                        v.extend(bb[t].iter());
                        v.extend(a[t].iter());
                        enc(v)
                    })
                    .collect()
            }),
        )],
        Traits { shared: true, ..tickp(false, &["chain"]) },
    );
    b.add(
        "t_defer",
        &["i64"],
        &[],
        &[
            (
                "i64",
                PerTickSeq,
                None,
                Ref::PerTick(|s, n| {
                    let a = batches::<i64>(s, 0, n);
                    (0..n).map(|t| if t >= 1 { enc(a[t - 1].clone()) } else { vec![] }).collect()
                }),
            ),
            (
                "i64",
                PerTickSeq,
                None,
                Ref::PerTick(|s, n| {
                    let a = batches::<i64>(s, 0, n);
                    (0..n).map(|t| if t >= 2 { enc(a[t - 2].clone()) } else { vec![] }).collect()
                }),
            ),
            (
                "i64",
                PerTickSeq,
                None,
                Ref::PerTick(|s, n| {
                    let a = batches::<i64>(s, 0, n);
                    (0..n)
                        .map(|t| {
                            let prev: Vec<i64> = if t >= 1 { a[t - 1].clone() } else { vec![] };
                            enc(a[t].iter().filter(|x| !prev.contains(x)).cloned().collect())
                        })
                        .collect()
                }),
            ),
        ],
        Traits { shared: true, ..tickp(true, &["defer_tick", "difference"]) },
    );
    b.add(
        "t_defer_singleton",
        &["i64", "i64"],
        &[],
        &[
            (
                "usize",
                PerTickSeq,
                None,
                Ref::PerTick(|s, n| {
                    let a = batches::<i64>(s, 0, n);
                    (0..n).map(|t| if t >= 1 { enc(vec![a[t - 1].len()]) } else { vec![] }).collect()
                }),
            ),
            ("usize", PerTickSeq, None, Ref::PerTick(|s, n| per_tick::<i64, usize>(s, n, |b| vec![b.len()]))),
            (
                "i64",
                PerTickSeq,
                None,
                Ref::PerTick(|s, n| {
                    let a = batches::<i64>(s, 1, n);
                    (0..n)
                        .map(|t| if t >= 1 { enc(a[t - 1].iter().cloned().max().into_iter().collect()) } else { vec![] })
                        .collect()
                }),
            ),
        ],
        Traits { shared: true, ..tickp(true, &["defer_tick", "singleton", "optional"]) },
    );
    b.add(
        "t_cycle_sum",
        &["i64"],
        &[],
        &[(
            "i64",
            PerTickSeq,
            None,
            Ref::PerTick(|s, n| {
                let a = batches::<i64>(s, 0, n);
                let mut tot = 0;
                (0..n)
                    .map(|t| {
                        tot += a[t].iter().sum::<i64>();
                        enc(vec![tot])
                    })
                    .collect()
            }),
        )],
        tickp(true, &["cycle", "cycle_with_initial", "singleton"]),
    );
    b.add(
        "t_cycle_stream",
        &["i64"],
        &[],
        &[(
            "i64",
            PerTickSeq,
            None,
            Ref::PerTick(|s, n| {
                let a = batches::<i64>(s, 0, n);
                let mut prev: Vec<i64> = vec![];
                (0..n)
                    .map(|t| {
                        let mut cur = a[t].clone();
                        cur.extend(prev.iter().map(|x| x + 100).filter(|x| *x < 300));
                        prev = cur.clone();
                        enc(cur)
                    })
                    .collect()
            }),
        )],
        tickp(true, &["cycle", "stream"]),
    );
    b.add(
        "t_cycle_optional",
        &["i64"],
        &[],
        &[(
            "i64",
            PerTickSeq,
            None,
            Ref::PerTick(|s, n| {
                let a = batches::<i64>(s, 0, n);
                let mut best: Option<i64> = None;
                (0..n)
                    .map(|t| {
                        best = a[t].iter().cloned().chain(best).max();
                        enc(best.into_iter().collect())
                    })
                    .collect()
            }),
        )],
        tickp(true, &["cycle", "optional"]),
    );
    b.add(
        "t_across_ticks",
        &["i64"],
        &[],
        &[
            (
                "usize",
                PerTickSeq,
                None,
                Ref::PerTick(|s, n| {
                    let a = batches::<i64>(s, 0, n);
                    let mut c = 0usize;
                    (0..n)
                        .map(|t| {
                            c += a[t].len();
                            enc(vec![c])
                        })
                        .collect()
                }),
            ),
            (
                "i64",
                PerTickSeq,
                None,
                Ref::PerTick(|s, n| {
                    let a = batches::<i64>(s, 0, n);
                    let mut acc = 0i64;
                    (0..n)
                        .map(|t| {
                            for x in &a[t] {
                                acc = acc * 2 + x;
                            }
                            enc(vec![acc])
                        })
                        .collect()
                }),
            ),
        ],
        Traits { shared: true, ..tickp(true, &["across_ticks"]) },
    );
    b.add(
        "t_first_tick",
        &["i64"],
        &[],
        &[
            ("i64", PerTickSeq, None, Ref::PerTick(|_, n| (0..n).map(|t| enc(vec![if t == 0 { 5i64 } else { 123 }])).collect())),
            (
                "i64",
                PerTickSeq,
                None,
                Ref::PerTick(|s, n| {
                    per_tick::<i64, i64>(s, n, |b| {
                        let mut v = vec![7, 8];
                        v.extend(b.iter());
                        v
                    })
                }),
            ),
        ],
        tickp(true, &["optional_first_tick", "tick-source"]),
    );
    fn keyed_per_tick<U: Serialize>(s: &Schedule, n: usize, f: impl Fn(i64, &[i64]) -> Vec<U>) -> Vec<Vec<Value>> {
        batches::<(i64, i64)>(s, 0, n).iter().map(|b| enc(per_key(b, &f))).collect()
    }
    b.add(
        "t_keyed_fold",
        &["(i64,i64)"],
        &[],
        &[
            ("(i64,i64)", PerTickBag, None, Ref::PerTick(|s, n| keyed_per_tick(s, n, |_, vs| vec![vs.iter().fold(0i64, |a, v| a * 2 + v)]))),
            ("(i64,i64)", PerTickBag, None, Ref::PerTick(|s, n| keyed_per_tick(s, n, |_, vs| vec![vs[0]]))),
            ("(i64,usize)", PerTickBag, None, Ref::PerTick(|s, n| keyed_per_tick(s, n, |_, vs| vec![vs.len()]))),
        ],
        Traits { shared: true, ..tickp(false, &["keyed", "fold_keyed", "tick-state"]) },
    );
    b.add(
        "t_keyed_scan",
        &["(i64,i64)"],
        &[],
        &[(
            "(i64,i64)",
            PerTickKeyed,
            None,
            Ref::PerTick(|s, n| {
                keyed_per_tick(s, n, |_, vs| {
                    let mut acc = 0;
                    vs.iter()
                        .map(|v| {
                            acc += v;
                            acc
                        })
                        .collect::<Vec<i64>>()
                })
            }),
        )],
        tickp(false, &["keyed", "scan", "tick-state"]),
    );
    b.add(
        "t_count_elems",
        &["i64"],
        &[],
        &[("i64", PerTickSeq, None, Ref::PerTick(|s, n| per_tick::<i64, i64>(s, n, |b| vec![b.len() as i64])))],
        tickp(false, &["sliced", "fold"]),
    );
    b.add(
        "t_tee_tick_and_top",
        &["i64"],
        &[],
        &[
            ("usize", PerTickSeq, None, Ref::PerTick(|s, n| per_tick::<i64, usize>(s, n, |b| vec![b.len()]))),
            ("usize", Final, Some(Promise::MonoSingleton), Ref::Eventual(|f| enc(vec![ints(f, 0).len()]))),
        ],
        Traits { shared: true, stateful_top: true, ..tickp(false, &["tee", "tick-and-top"]) },
    );
    // ------------------------------------------------------------------ atomic regions
    b.add(
        "a_enumerate",
        &["i64"],
        &[],
        &[("(usize,i64)", Seq, None, Ref::Eventual(|f| enc(ints(f, 0).into_iter().enumerate().collect())))],
        safe(true, &["atomic", "enumerate", "ordered"]),
    );
    b.add(
        "a_scan_unique_limit",
        &["i64"],
        &[],
        &[
            (
                "i64",
                Seq,
                None,
                Ref::Eventual(|f| {
                    let mut acc = 0;
                    enc(ints(f, 0)
                        .into_iter()
                        .map(|x| {
                            acc += x;
                            acc
                        })
                        .collect())
                }),
            ),
            (
                "i64",
                Seq,
                None,
                Ref::Eventual(|f| {
                    let mut seen = vec![];
                    for x in ints(f, 0) {
                        if !seen.contains(&x) {
                            seen.push(x);
                        }
                    }
                    enc(seen)
                }),
            ),
            ("i64", Seq, None, Ref::Eventual(|f| enc(ints(f, 0).into_iter().take(3).collect()))),
        ],
        Traits { shared: true, ..safe(true, &["atomic", "scan", "unique", "limit", "ordered"]) },
    );
    b.add(
        "a_fold_count",
        &["i64"],
        &[],
        &[
            ("usize", Final, Some(Promise::MonoSingleton), Ref::Eventual(|f| enc(vec![ints(f, 0).len()]))),
            ("i64", Final, None, Ref::Eventual(|f| enc(vec![ints(f, 0).into_iter().fold(0i64, |a, x| a * 2 + x)]))),
            ("i64", Seq, None, Ref::Eventual(|f| enc(ints(f, 0)))),
        ],
        Traits { shared: true, ..safe(true, &["atomic", "fold", "count"]) },
    );
    b.add(
        "a_reduce_max_first",
        &["i64"],
        &[],
        &[
            ("i64", Final, None, Ref::Eventual(|f| enc(ints(f, 0).into_iter().max().into_iter().collect()))),
            ("i64", Final, None, Ref::Eventual(|f| enc(ints(f, 0).first().cloned().into_iter().collect()))),
            ("i64", Final, None, Ref::Eventual(|f| enc(ints(f, 0).into_iter().reduce(|a, x| a * 2 + x).into_iter().collect()))),
        ],
        Traits { shared: true, ..safe(true, &["atomic", "reduce", "max", "first"]) },
    );
    b.add(
        "a_selfjoin",
        &["(i64,i64)"],
        &[],
        &[(
            "(i64,(i64,i64))",
            Bag,
            None,
            Ref::Eventual(|f| {
                let a = kvs(f, 0);
                let b2: Vec<(i64, i64)> = a.iter().map(|(k, v)| (*k, v + 100)).collect();
                enc(join_pairs(&a, &b2))
            }),
        )],
        Traits { shared: true, ..safe(true, &["atomic", "join"]) },
    );
    b.add(
        "a_keyed",
        &["(i64,i64)"],
        &[],
        &[
            ("(i64,(usize,i64))", KeyedSeq, None, Ref::Eventual(|f| enc(per_key(&kvs(f, 0), |_, vs| vs.iter().cloned().enumerate().collect())))),
            (
                "(i64,i64)",
                KeyedSeq,
                None,
                Ref::Eventual(|f| {
                    enc(per_key(&kvs(f, 0), |_, vs| {
                        let mut acc = 0;
                        vs.iter()
                            .map(|v| {
                                acc += v;
                                acc
                            })
                            .collect()
                    }))
                }),
            ),
            ("(i64,i64)", Bag, Some(Promise::BoundedValue), Ref::Eventual(|f| enc(per_key(&kvs(f, 0), |_, vs| vec![vs[0]])))),
            (
                "(i64,i64)",
                Final,
                Some(Promise::MonoKeys),
                Ref::Eventual(|f| enc(per_key(&kvs(f, 0), |_, vs| vec![vs.iter().fold(0i64, |a, v| a * 2 + v)]))),
            ),
        ],
        Traits { shared: true, ..safe(true, &["atomic", "keyed", "fold_keyed", "scan", "enumerate"]) },
    );
    b.add(
        "t_across_stream_ops",
        &["i64"],
        &[],
        &[
            (
                "(usize,i64)",
                PerTickSeq,
                None,
                Ref::PerTick(|s, n| {
                    let a = batches::<i64>(s, 0, n);
                    let mut i = 0usize;
                    (0..n)
                        .map(|t| {
                            enc(a[t]
                                .iter()
                                .map(|x| {
                                    i += 1;
                                    (i - 1, *x)
                                })
                                .collect())
                        })
                        .collect()
                }),
            ),
            (
                "i64",
                PerTickSeq,
                None,
                Ref::PerTick(|s, n| {
                    let a = batches::<i64>(s, 0, n);
                    let mut acc = 0i64;
                    (0..n)
                        .map(|t| {
                            enc(a[t]
                                .iter()
                                .map(|x| {
                                    acc += x;
                                    acc
                                })
                                .collect())
                        })
                        .collect()
                }),
            ),
            (
                "i64",
                PerTickSeq,
                None,
                Ref::PerTick(|s, n| {
                    let a = batches::<i64>(s, 0, n);
                    let mut seen: Vec<i64> = vec![];
                    (0..n)
                        .map(|t| {
                            let mut out = vec![];
                            for x in &a[t] {
                                if !seen.contains(x) {
                                    seen.push(*x);
                                    out.push(*x);
                                }
                            }
                            enc(out)
                        })
                        .collect()
                }),
            ),
            (
                "i64",
                PerTickSeq,
                None,
                Ref::PerTick(|s, n| {
                    let a = batches::<i64>(s, 0, n);
                    let mut best: Option<i64> = None;
                    (0..n)
                        .map(|t| {
                            best = a[t].iter().cloned().chain(best).max();
                            enc(best.into_iter().collect())
                        })
                        .collect()
                }),
            ),
        ],
        Traits { shared: true, ..tickp(true, &["across_ticks", "atomic", "enumerate", "scan", "unique", "max"]) },
    );
    b.add(
        "t_across_keyed",
        &["(i64,i64)"],
        &[],
        &[
            (
                "(i64,(usize,i64))",
                PerTickKeyed,
                None,
                Ref::PerTick(|s, n| {
                    let a = batches::<(i64, i64)>(s, 0, n);
                    let mut counts: BTreeMap<i64, usize> = BTreeMap::new();
                    (0..n)
                        .map(|t| {
                            enc(a[t]
                                .iter()
                                .map(|(k, v)| {
                                    let c = counts.entry(*k).or_default();
                                    *c += 1;
                                    (*k, (*c - 1, *v))
                                })
                                .collect())
                        })
                        .collect()
                }),
            ),
            (
                "(i64,i64)",
                PerTickBag,
                None,
                Ref::PerTick(|s, n| {
                    let a = batches::<(i64, i64)>(s, 0, n);
                    let mut all: Vec<(i64, i64)> = vec![];
                    (0..n)
                        .map(|t| {
                            all.extend(a[t].iter().cloned());
                            enc(per_key(&all, |_, vs| vec![vs.iter().fold(0i64, |acc, v| acc * 2 + v)]))
                        })
                        .collect()
                }),
            ),
        ],
        Traits { shared: true, ..tickp(true, &["across_ticks", "atomic", "keyed", "enumerate", "fold_keyed"]) },
    );
    // ------------------------------------------------------------------ typed promises (C33)
    fn other(classes: &[&str]) -> Traits {
        Traits { safe: false, stateful_top: true, ..safe(true, classes) }
    }
    b.add(
        "m_reduce_watermark",
        &["(i64,i64)", "i64"],
        &[],
        &[
            ("(usize,i64,i64)", Final, Some(Promise::Typed), Ref::Eventual(|_| vec![])),
            ("(usize,i64,i64)", Final, Some(Promise::Typed), Ref::Eventual(|_| vec![])),
            ("(usize,i64,i64)", Final, Some(Promise::Typed), Ref::Eventual(|_| vec![])),
        ],
        other(&["reduce_watermark", "keyed", "typed-promise"]),
    );
    b.add(
        "m_typed_folds",
        &["(i64,i64)"],
        &[],
        &[
            ("(usize,i64,i64)", Final, Some(Promise::Typed), Ref::Eventual(|_| vec![])),
            ("(usize,i64,i64)", Final, Some(Promise::Typed), Ref::Eventual(|_| vec![])),
            ("(usize,i64,usize)", Final, Some(Promise::Typed), Ref::Eventual(|_| vec![])),
            ("(usize,i64,i64)", Final, Some(Promise::Typed), Ref::Eventual(|_| vec![])),
            ("(usize,i64,i64)", Final, Some(Promise::Typed), Ref::Eventual(|_| vec![])),
        ],
        other(&["fold_keyed", "value_counts", "reduce_keyed", "keyed", "typed-promise"]),
    );
    // ------------------------------------------------------------------ by_ref / by_mut (C41)
    for (name, n_out, inputs) in [
        ("r_ref_only", 3usize, vec![]),
        ("r_mut_only", 2, vec![]),
        ("r_ref_then_mut", 3, vec![]),
        ("r_mut_then_ref", 3, vec![]),
        ("r_ref_mut_ref", 4, vec![]),
        ("r_two_collections", 4, vec![]),
        ("r_tick_ref_mut", 4, vec!["i64"]),
    ] {
        let outs: Vec<(&str, OutKind, Option<Promise>, Ref)> = (0..n_out).map(|_| ("i64", Seq, None, Ref::Eventual(|_| vec![]))).collect();
        let ins: Vec<&str> = inputs;
        b.add(name, &ins, &[], &outs, Traits { shared: true, ..other(&["by_ref", "by_mut", "handoff-reference"]) });
    }
    trusted(&mut b);
    // reproducers of confirmed findings
    b.add(
        "k_zip_into_stream",
        &["i64"],
        &[],
        &[
            ("(i64,i64)", Seq, None, Ref::Eventual(|_| enc(vec![(3i64, 4i64)]))),
            ("i64", Seq, None, Ref::Eventual(|f| enc(ints(f, 0)))),
        ],
        safe(true, &["singleton-zip", "bounded-source", "known-finding"]),
    );
    b.add(
        "k_zip_count",
        &["i64"],
        &[],
        &[
            ("usize", Seq, None, Ref::Eventual(|_| enc(vec![1usize]))),
            ("i64", Seq, None, Ref::Eventual(|f| enc(ints(f, 0)))),
        ],
        safe(true, &["singleton-zip", "count", "bounded-source", "known-finding"]),
    );
    // reproducers that only type-check while the finding exists (a type hole): they carry their
    // own source and are compiled as separate modules, so that a repaired tree turns them into
    // stage-1 exclusions instead of breaking the corpus build
    b.add(
        "k_bounded_join_unbounded_count",
        &["(i64,i64)"],
        &[],
        &[("usize", Seq, None, Ref::Eventual(|f| enc(vec![kvs(f, 0).iter().filter(|(k, _)| *k == 1).count() * 2])))],
        safe(true, &["join", "count", "bounded-source", "known-finding"]),
    );
    b.progs.last_mut().unwrap().spec.src = Some(
        r#"// `bounded.join(unbounded)` is typed Bounded (result boundedness = left side's), although it
// keeps growing with the unbounded right side; bounded consumers (count -> fold_no_replay) are
// then compiled for a one-shot collection
pub fn k_bounded_join_unbounded_count<'a>(p: &Process<'a, ()>) {
    let b = p.source_iter(q!(vec![(1i64, 6i64), (1, 7)]));
    b.join(p.embedded_input::<(i64, i64)>("in0"))
        .count()
        .into_stream()
        .embedded_output("out0");
}
"#
        .to_string(),
    );
    b.add(
        "k_bounded_join_unbounded_selfjoin",
        &["(i64,i64)"],
        &[],
        &[(
            "(i64,(i64,i64))",
            Bag,
            None,
            Ref::Eventual(|f| {
                let bb = vec![(1i64, 6i64), (1, 7)];
                let j: Vec<(i64, i64)> = join_pairs(&bb, &kvs(f, 0)).into_iter().map(|(k, (a, b))| (k, a * 10 + b)).collect();
                enc(join_pairs(&j, &j))
            }),
        )],
        safe(true, &["join", "bounded-source", "known-finding"]),
    );
    b.progs.last_mut().unwrap().spec.src = Some(
        r#"// the mis-typed "bounded" join result used as the (bounded) build side of another join: the
// code generator picks join_multiset_half without symmetric state
pub fn k_bounded_join_unbounded_selfjoin<'a>(p: &Process<'a, ()>) {
    let b = p.source_iter(q!(vec![(1i64, 6i64), (1, 7)]));
    let j = b
        .join(p.embedded_input::<(i64, i64)>("in0"))
        .map(q!(|(k, (a, b)): (i64, (i64, i64))| (k, a * 10 + b)));
    let jj: Stream<(i64, (i64, i64)), Process<'a, ()>, Bounded, NoOrder, ExactlyOnce> = j.clone().join(j);
    jj.assume_ordering::<TotalOrder>(nondet!(/** terminal observation adapter: multiset */))
        .embedded_output("out0");
}
"#
        .to_string(),
    );
    let _ = json!(null);
    b.progs
}

fn trust(tick: bool, classes: &[&str]) -> Traits {
    let mut c: Vec<String> = classes.iter().map(|s| s.to_string()).collect();
    c.push("trusted".into());
    Traits { safe: !tick, stateful_top: !tick, cycle_or_defer: false, tick_program: tick, ops: 0, shared: false, classes: c, avoided: vec![] }
}

fn sorted_map(kv: Vec<(i64, i64)>) -> Vec<(i64, i64)> {
    let mut v = kv;
    v.sort();
    v
}

/// C32 micro-programs (templates/corpus.rs, prefix x_)
fn trusted(b: &mut B) {
    let start = b.progs.len();
    let mut advs: Vec<Vec<Adv>> = vec![];
    b.add(
        "x_max_min_top",
        &["i64"],
        &[],
        &[
            ("i64", Final, None, Ref::Eventual(|f| enc(ints(f, 0).into_iter().max().into_iter().collect()))),
            ("i64", Final, None, Ref::Eventual(|f| enc(ints(f, 0).into_iter().min().into_iter().collect()))),
        ],
        trust(false, &["max", "min"]),
    );
    advs.push(vec![Adv::PermDup]);
    b.add(
        "x_max_min_tick",
        &["i64"],
        &[],
        &[
            ("i64", PerTickSeq, None, Ref::PerTick(|s, n| per_tick::<i64, i64>(s, n, |b| b.iter().cloned().max().into_iter().collect()))),
            ("i64", PerTickSeq, None, Ref::PerTick(|s, n| per_tick::<i64, i64>(s, n, |b| b.iter().cloned().min().into_iter().collect()))),
        ],
        trust(true, &["max", "min"]),
    );
    advs.push(vec![Adv::PermDup]);
    b.add(
        "x_count_top",
        &["i64"],
        &[],
        &[("usize", Final, Some(Promise::MonoSingleton), Ref::Eventual(|f| enc(vec![ints(f, 0).len()])))],
        trust(false, &["count"]),
    );
    advs.push(vec![Adv::Perm]);
    b.add(
        "x_count_tick",
        &["i64"],
        &[],
        &[("usize", PerTickSeq, None, Ref::PerTick(|s, n| per_tick::<i64, usize>(s, n, |b| vec![b.len()])))],
        trust(true, &["count"]),
    );
    advs.push(vec![Adv::Perm]);
    b.add(
        "x_first_last_top",
        &["i64"],
        &[],
        &[
            ("i64", Final, None, Ref::Eventual(|f| enc(ints(f, 0).first().cloned().into_iter().collect()))),
            ("i64", Final, None, Ref::Eventual(|f| enc(ints(f, 0).last().cloned().into_iter().collect()))),
        ],
        trust(false, &["first", "last"]),
    );
    advs.push(vec![Adv::Stutter]);
    b.add(
        "x_first_last_tick",
        &["i64"],
        &[],
        &[
            ("i64", PerTickSeq, None, Ref::PerTick(|s, n| per_tick::<i64, i64>(s, n, |b| b.first().cloned().into_iter().collect()))),
            ("i64", PerTickSeq, None, Ref::PerTick(|s, n| per_tick::<i64, i64>(s, n, |b| b.last().cloned().into_iter().collect()))),
        ],
        trust(true, &["first", "last"]),
    );
    advs.push(vec![Adv::Stutter]);
    b.add(
        "x_is_empty_tick",
        &["i64"],
        &[],
        &[("bool", PerTickSeq, None, Ref::PerTick(|s, n| per_tick::<i64, bool>(s, n, |b| vec![!b.iter().any(|x| *x >= 2)])))],
        trust(true, &["is_empty"]),
    );
    advs.push(vec![Adv::PermDup]);
    b.add(
        "x_repeat_with_keys_tick",
        &["(i64,i64)", "i64"],
        &[],
        &[(
            "(i64,i64)",
            PerTickKeyed,
            None,
            Ref::PerTick(|s, n| {
                let ks = batches::<(i64, i64)>(s, 0, n);
                let vs = batches::<i64>(s, 1, n);
                (0..n)
                    .map(|t| {
                        let mut out = vec![];
                        for k in keys_in_order(&ks[t]) {
                            for v in &vs[t] {
                                out.push((k, *v));
                            }
                        }
                        enc(out)
                    })
                    .collect()
            }),
        )],
        trust(true, &["repeat_with_keys", "keyed"]),
    );
    advs.push(vec![Adv::KeyInterleave, Adv::Fixed]);
    b.add(
        "x_noop_casts_top",
        &["i64"],
        &[],
        &[
            ("i64", Seq, None, Ref::Eventual(|f| enc(ints(f, 0)))),
            ("i64", Bag, None, Ref::Eventual(|f| enc(ints(f, 0)))),
            (
                "i64",
                Bag,
                None,
                Ref::Eventual(|f| {
                    let mut seen = vec![];
                    for x in ints(f, 0) {
                        if !seen.contains(&x) {
                            seen.push(x);
                        }
                    }
                    enc(seen)
                }),
            ),
            ("i64", Seq, None, Ref::Eventual(|f| enc(ints(f, 0)))),
        ],
        trust(false, &["weaken", "make_totally_ordered", "make_exactly_once"]),
    );
    advs.push(vec![Adv::Fixed]);
    b.add(
        "x_keyed_noop_casts_top",
        &["(i64,i64)"],
        &[],
        &[
            ("(i64,i64)", KeyedSeq, None, Ref::Eventual(|f| enc(kvs(f, 0)))),
            ("(i64,i64)", Bag, None, Ref::Eventual(|f| enc(kvs(f, 0)))),
            (
                "(i64,i64)",
                Bag,
                None,
                Ref::Eventual(|f| {
                    let mut seen: Vec<(i64, i64)> = vec![];
                    for x in kvs(f, 0) {
                        if !seen.contains(&x) {
                            seen.push(x);
                        }
                    }
                    enc(seen)
                }),
            ),
        ],
        trust(false, &["weaken", "keyed"]),
    );
    advs.push(vec![Adv::KeyInterleave]);
    b.add(
        "x_value_counts_top",
        &["(i64,i64)"],
        &[],
        &[("(i64,usize)", Final, Some(Promise::MonoValue), Ref::Eventual(|f| enc(per_key(&kvs(f, 0), |_, vs| vec![vs.len()]))))],
        trust(false, &["value_counts", "keyed"]),
    );
    advs.push(vec![Adv::Perm]);
    b.add(
        "x_value_counts_tick",
        &["(i64,i64)"],
        &[],
        &[(
            "(i64,usize)",
            PerTickBag,
            None,
            Ref::PerTick(|s, n| batches::<(i64, i64)>(s, 0, n).iter().map(|b| enc(per_key(b, |_, vs| vec![vs.len()]))).collect()),
        )],
        trust(true, &["value_counts", "keyed"]),
    );
    advs.push(vec![Adv::Perm]);
    b.add(
        "x_ks_into_singleton_top",
        &["(i64,i64)"],
        &[],
        &[
            ("Vec<(i64,i64)>", Final, None, Ref::Eventual(|f| enc(vec![sorted_map(per_key(&kvs(f, 0), |_, vs| vec![vs[0]]))]))),
            (
                "Vec<(i64,i64)>",
                Final,
                None,
                Ref::Eventual(|f| enc(vec![sorted_map(per_key(&kvs(f, 0), |_, vs| vec![vs.iter().fold(0i64, |a, v| a * 2 + v)]))])),
            ),
        ],
        trust(false, &["into_singleton", "keyed"]),
    );
    advs.push(vec![Adv::KeyInterleave]);
    b.add(
        "x_ks_into_singleton_tick",
        &["(i64,i64)"],
        &[],
        &[
            (
                "Vec<(i64,i64)>",
                PerTickSeq,
                None,
                Ref::PerTick(|s, n| batches::<(i64, i64)>(s, 0, n).iter().map(|b| enc(vec![sorted_map(per_key(b, |_, vs| vec![vs[0]]))])).collect()),
            ),
            (
                "usize",
                PerTickSeq,
                None,
                Ref::PerTick(|s, n| batches::<(i64, i64)>(s, 0, n).iter().map(|b| enc(vec![keys_in_order(b).len()])).collect()),
            ),
        ],
        trust(true, &["into_singleton", "key_count", "keyed"]),
    );
    advs.push(vec![Adv::KeyInterleave]);
    fn max_key(kv: &[(i64, i64)]) -> Vec<(i64, i64)> {
        let firsts = per_key(kv, |_, vs| vec![vs[0]]);
        firsts.into_iter().max_by_key(|(k, _)| *k).into_iter().collect()
    }
    b.add(
        "x_ks_get_max_key_top",
        &["(i64,i64)"],
        &[],
        &[("(i64,i64)", Final, None, Ref::Eventual(|f| enc(max_key(&kvs(f, 0)))))],
        trust(false, &["get_max_key", "keyed"]),
    );
    advs.push(vec![Adv::KeyInterleave]);
    b.add(
        "x_ks_get_max_key_tick",
        &["(i64,i64)"],
        &[],
        &[("(i64,i64)", PerTickSeq, None, Ref::PerTick(|s, n| batches::<(i64, i64)>(s, 0, n).iter().map(|b| enc(max_key(b))).collect()))],
        trust(true, &["get_max_key", "keyed"]),
    );
    advs.push(vec![Adv::KeyInterleave]);
    fn distinct_i(v: Vec<i64>) -> Vec<i64> {
        let mut seen = vec![];
        for x in v {
            if !seen.contains(&x) {
                seen.push(x);
            }
        }
        seen
    }
    for name in ["x_unique_top", "x_unique_atomic_top"] {
        b.add(
            name,
            &["i64", "i64"],
            &[],
            &[
                ("i64", Bag, None, Ref::Eventual(|f| enc(distinct_i(ints(f, 0))))),
                ("i64", Seq, None, Ref::Eventual(|f| enc(distinct_i(ints(f, 1))))),
            ],
            trust(false, &["unique", if name.contains("atomic") { "atomic" } else { "top" }]),
        );
        advs.push(vec![Adv::PermDup, Adv::Stutter]);
    }
    b.add(
        "x_keys_top",
        &["(i64,i64)"],
        &[],
        &[
            ("i64", Bag, None, Ref::Eventual(|f| enc(keys_in_order(&kvs(f, 0))))),
            ("i64", Bag, None, Ref::Eventual(|f| enc(keys_in_order(&kvs(f, 0))))),
        ],
        trust(false, &["keys", "unique", "atomic", "keyed"]),
    );
    advs.push(vec![Adv::PermDup]);
    for (i, a) in advs.into_iter().enumerate() {
        // these programs are keyed by construction where the adversary says so
        for (j, inp) in b.progs[start + i].spec.inputs.iter_mut().enumerate() {
            inp.keyed = a.get(j) == Some(&Adv::KeyInterleave);
        }
        b.progs[start + i].adv = a;
    }
}
