//! Program descriptions shared by the corpus, the generator, the batch builder and the oracles.
use serde::{Deserialize, Serialize};
use serde_json::Value;

use crate::ty::Ty;

/// How an embedded output is to be read by the oracles.
#[derive(Clone, Debug, PartialEq, Eq, Serialize, Deserialize)]
pub enum OutKind {
    /// Hydro type `TotalOrder, ExactlyOnce` by construction: compared as a sequence.
    Seq,
    /// Hydro type `NoOrder` observed through a terminal `assume_ordering(nondet!)`: multiset.
    Bag,
    /// keyed stream with ordered values observed through `entries_partially_ordered(nondet!)`:
    /// items are `(k, v)`; per-key subsequences are compared, cross-key interleaving is free.
    KeyedSeq,
    /// per-tick snapshot (`snapshot(&tick, nondet!).all_ticks()` or `.entries()` of a snapshot):
    /// only the items emitted in the final tick (the settled value) are compared.
    Final,
    /// streams whose per-tick content is specified by the schedule itself (C30), compared per
    /// tick: as a sequence, as a multiset, per key, or as a sequence of groups (inside a group
    /// the documentation fixes no order).
    PerTickSeq,
    PerTickBag,
    PerTickKeyed,
    PerTickGrouped,
}

impl OutKind {
    pub fn per_tick(&self) -> bool {
        matches!(self, OutKind::PerTickSeq | OutKind::PerTickBag | OutKind::PerTickKeyed | OutKind::PerTickGrouped)
    }
}

/// Type promise attached to a snapshot output (C33).
#[derive(Clone, Debug, PartialEq, Eq, Serialize, Deserialize)]
pub enum Promise {
    /// `Singleton<_, _, Monotonic>`: value never decreases.
    MonoSingleton,
    /// keyed singleton whose keys never disappear (items are `(k, v)`).
    MonoKeys,
    /// keys never disappear and per-key values never decrease.
    MonoValue,
    /// keys never disappear and a key's value never changes once present.
    BoundedValue,
    /// the promise is read from the collection's type at staging time and travels with every
    /// observed entry `(code, k, v)`: 0 nothing, 1 MonotonicKeys, 2 MonotonicValue
    Typed,
}

#[derive(Clone, Debug, Serialize, Deserialize)]
pub struct OutSpec {
    pub name: String,
    pub ty: Ty,
    pub kind: OutKind,
    #[serde(default)]
    pub promise: Option<Promise>,
    /// number of defer_tick on the path from the inputs (generated tick programs; C30 window oracle)
    #[serde(default)]
    pub delay: u32,
    /// this output is `defer_tick()` of the named output (C30 self-check: shifted by one tick)
    #[serde(default)]
    pub shift_of: Option<String>,
    /// operator labels on the dependency slice of this output (generated programs; signatures)
    #[serde(default)]
    pub slice: Vec<String>,
    /// `across_ticks(|s| s.<stream op>())` of a per-item pipeline of one input: the concatenation
    /// of the per-tick outputs does not depend on the batching (C30 generated oracle)
    #[serde(default)]
    pub concat: bool,
}

#[derive(Clone, Debug, Serialize, Deserialize)]
pub struct InSpec {
    pub name: String,
    pub ty: Ty,
    /// input is used as a keyed stream with ordered values: cross-key interleavings are
    /// admissible re-presentations (C29)
    #[serde(default)]
    pub keyed: bool,
}

#[derive(Clone, Debug, Serialize, Deserialize, Default)]
pub struct Traits {
    /// uses only safe (nondet-free) APIs apart from the terminal observation adapters
    pub safe: bool,
    /// has >= 1 top-level stateful operator (join, fold, unique, keyed fold, anti_join, ...)
    pub stateful_top: bool,
    /// has a tick cycle or a defer_tick
    pub cycle_or_defer: bool,
    /// the per-tick behaviour is specified (C30 family): the batch is given by the schedule
    pub tick_program: bool,
    /// number of operators (for evidence only)
    pub ops: u32,
    /// has a shared subexpression (tee)
    pub shared: bool,
    /// free-form class labels
    pub classes: Vec<String>,
    /// constructs behind confirmed findings that the generator avoided for this program
    #[serde(default)]
    pub avoided: Vec<String>,
}

#[derive(Clone, Debug, Serialize, Deserialize)]
pub struct ProgSpec {
    /// Rust function name inside `vh_progs`; unique within a batch.
    pub name: String,
    /// `None` for corpus programs (source lives in templates/corpus.rs), `Some` for generated ones.
    pub src: Option<String>,
    pub inputs: Vec<InSpec>,
    /// embedded singleton inputs (name, type)
    #[serde(default)]
    pub sing_inputs: Vec<InSpec>,
    pub outputs: Vec<OutSpec>,
    #[serde(default)]
    pub traits: Traits,
    /// extra locations the program function takes after the first process: "p2" (a second
    /// process) and/or "c" (a cluster); such programs are only compiled (C41), never run
    #[serde(default)]
    pub locs: Vec<String>,
    /// compile only: the runner gets a stub instead of driving glue
    #[serde(default)]
    pub no_run: bool,
}

impl ProgSpec {
    pub fn is_corpus(&self) -> bool {
        self.src.is_none()
    }
    pub fn out(&self, name: &str) -> Option<&OutSpec> {
        self.outputs.iter().find(|o| o.name == name)
    }
}

/// A schedule: for every input the items released before each tick.
#[derive(Clone, Debug, Serialize, Deserialize, PartialEq)]
pub struct Schedule {
    /// inputs[i][t]
    pub inputs: Vec<Vec<Vec<Value>>>,
    pub sing: Vec<Value>,
}

impl Schedule {
    pub fn n_ticks(&self) -> usize {
        self.inputs.iter().map(|i| i.len()).max().unwrap_or(0)
    }
    pub fn flat(&self, i: usize) -> Vec<Value> {
        self.inputs[i].iter().flatten().cloned().collect()
    }
}

/// What came back from the runner for one (program, schedule).
#[derive(Clone, Debug, Serialize, Deserialize)]
pub struct RunResult {
    pub ticks: usize,
    pub quiescent: bool,
    /// output name -> (tick, item) in emission order
    pub outs: std::collections::BTreeMap<String, Vec<(usize, Value)>>,
    pub panic: Option<String>,
}

impl RunResult {
    pub fn items(&self, out: &str) -> Vec<Value> {
        self.outs
            .get(out)
            .map(|v| v.iter().map(|(_, x)| x.clone()).collect())
            .unwrap_or_default()
    }
    pub fn tick_items(&self, out: &str, tick: usize) -> Vec<Value> {
        self.outs
            .get(out)
            .map(|v| v.iter().filter(|(t, _)| *t == tick).map(|(_, x)| x.clone()).collect())
            .unwrap_or_default()
    }
}
