//! Shared plumbing for the /verif engines: argument parsing, seeding, evidence files,
//! known-findings handling, replay files and a thin deterministic wrapper around proptest.
//!
//! Contract (DESIGN.md §1.3): an engine binary is invoked as
//!   <bin> --prop C01 --tier quick|thorough --seed N --evidence FILE --known FILE
//!         --replay-dir DIR [--replay FILE]
//! and exits 0 (held), 1 (unlisted violation, a `VIOLATION property=.. replay=..` line was
//! printed) or 2 (inconclusive: infrastructure problem, or a vacuous run).

use std::cell::RefCell;
use std::collections::hash_map::DefaultHasher;
use std::collections::{BTreeMap, BTreeSet, HashSet};
use std::fmt::Debug;
use std::hash::{Hash, Hasher};
use std::path::{Path, PathBuf};
use std::time::Instant;

pub use proptest;
use proptest::strategy::Strategy;
use proptest::test_runner::{Config, RngAlgorithm, RngSeed, TestCaseError, TestError, TestRunner};
pub use serde;
use serde::de::DeserializeOwned;
use serde::Serialize;
pub use serde_json;
use serde_json::{json, Value};

#[derive(Clone, Copy, Debug, PartialEq, Eq)]
pub enum Tier {
    Quick,
    Thorough,
}

impl Tier {
    pub fn name(self) -> &'static str {
        match self {
            Tier::Quick => "quick",
            Tier::Thorough => "thorough",
        }
    }
    /// Pick a work amount by tier.
    pub fn pick<T>(self, quick: T, thorough: T) -> T {
        match self {
            Tier::Quick => quick,
            Tier::Thorough => thorough,
        }
    }
}

#[derive(Clone, Debug)]
pub struct Args {
    pub prop: String,
    pub tier: Tier,
    pub seed: u64,
    pub evidence: PathBuf,
    pub known: PathBuf,
    pub replay_dir: PathBuf,
    pub replay: Option<PathBuf>,
    pub extra: BTreeMap<String, String>,
}

impl Args {
    pub fn parse() -> Args {
        let mut it = std::env::args().skip(1);
        let mut m: BTreeMap<String, String> = BTreeMap::new();
        while let Some(a) = it.next() {
            if let Some(k) = a.strip_prefix("--") {
                let v = it.next().unwrap_or_default();
                m.insert(k.to_string(), v);
            }
        }
        let prop = m.remove("prop").expect("--prop required");
        let tier = match m.remove("tier").as_deref() {
            Some("thorough") => Tier::Thorough,
            _ => Tier::Quick,
        };
        let seed = m
            .remove("seed")
            .and_then(|s| s.parse::<u64>().ok())
            .or_else(|| std::env::var("VERIF_SEED").ok().and_then(|s| s.parse().ok()))
            .unwrap_or(0);
        let evidence = m
            .remove("evidence")
            .map(PathBuf::from)
            .unwrap_or_else(|| PathBuf::from(format!("/verif/evidence/{prop}.json")));
        let known = m
            .remove("known")
            .map(PathBuf::from)
            .unwrap_or_else(|| PathBuf::from("/verif/known_findings.json"));
        let replay_dir = m
            .remove("replay-dir")
            .map(PathBuf::from)
            .unwrap_or_else(|| PathBuf::from(format!("/verif/replays/{prop}")));
        let replay = m.remove("replay").map(PathBuf::from);
        Args {
            prop,
            tier,
            seed,
            evidence,
            known,
            replay_dir,
            replay,
            extra: m,
        }
    }
}

pub fn hash64<T: Hash + ?Sized>(t: &T) -> u64 {
    let mut h = DefaultHasher::new();
    t.hash(&mut h);
    h.finish()
}

pub fn hash_debug<T: Debug + ?Sized>(t: &T) -> u64 {
    hash64(&format!("{t:?}"))
}

/// FNV-1a: a stable (not std-version dependent) hash used for seed derivation and file names.
pub fn fnv(s: &str) -> u64 {
    let mut h: u64 = 0xcbf29ce484222325;
    for b in s.bytes() {
        h ^= b as u64;
        h = h.wrapping_mul(0x100000001b3);
    }
    h
}

#[derive(Clone, Debug, Default)]
pub struct KnownFindings {
    /// (property, signature) -> description
    pub known: BTreeMap<(String, String), String>,
}

impl KnownFindings {
    /// Loads `path` and, next to it, every `known_findings.d/*.json` (same format; one file per
    /// engine so that concurrent writers never clobber each other).
    pub fn load(path: &Path) -> KnownFindings {
        let mut k = KnownFindings::default();
        if let Some(dir) = path.parent() {
            if let Ok(rd) = std::fs::read_dir(dir.join("known_findings.d")) {
                let mut files: Vec<PathBuf> = rd.flatten().map(|e| e.path()).collect();
                files.sort();
                for f in files {
                    if f.extension().is_some_and(|x| x == "json") {
                        let sub = KnownFindings::load_one(&f);
                        k.known.extend(sub.known);
                    }
                }
            }
        }
        let main = KnownFindings::load_one(path);
        k.known.extend(main.known);
        k
    }

    fn load_one(path: &Path) -> KnownFindings {
        let mut k = KnownFindings::default();
        let Ok(txt) = std::fs::read_to_string(path) else {
            return k;
        };
        let Ok(v) = serde_json::from_str::<Value>(&txt) else {
            eprintln!("warning: {} is not valid JSON; treating as empty", path.display());
            return k;
        };
        if let Some(arr) = v.get("findings").and_then(|a| a.as_array()) {
            for f in arr {
                let (Some(p), Some(s)) = (
                    f.get("property").and_then(|x| x.as_str()),
                    f.get("signature").and_then(|x| x.as_str()),
                ) else {
                    continue;
                };
                let what = f.get("what").and_then(|x| x.as_str()).unwrap_or("");
                k.known.insert((p.to_string(), s.to_string()), what.to_string());
            }
        }
        k
    }
    pub fn get(&self, prop: &str, sig: &str) -> Option<&str> {
        self.known
            .get(&(prop.to_string(), sig.to_string()))
            .map(|s| s.as_str())
    }
}

#[derive(Clone, Debug, Default)]
struct SubStats {
    evaluations: u64,
    nontrivial: u64,
    exhaustive: bool,
}

/// A failure raised by a property body: `sig` is the exact signature used to match entries of
/// known_findings.json (type + operation + minimal input class), `msg` the human explanation.
#[derive(Clone, Debug)]
pub struct Fail {
    pub sig: String,
    pub msg: String,
}

impl Fail {
    pub fn new(sig: impl Into<String>, msg: impl Into<String>) -> Fail {
        Fail {
            sig: sig.into(),
            msg: msg.into(),
        }
    }
}

/// Observation handle passed to property bodies for one case.
#[derive(Default)]
pub struct Obs {
    pub nontrivial: bool,
    pub classes: Vec<String>,
    /// failures with a signature listed as a known finding: recorded, do not fail the case
    pub known_hits: Vec<Fail>,
    pub excluded: Vec<String>,
}

impl Obs {
    pub fn nontrivial(&mut self, b: bool) {
        self.nontrivial |= b;
    }
    pub fn class(&mut self, c: impl Into<String>) {
        self.classes.push(c.into());
    }
    pub fn excluded(&mut self, c: impl Into<String>) {
        self.excluded.push(c.into());
    }
}

pub struct Ctx {
    pub args: Args,
    pub known: KnownFindings,
    start: Instant,
    evaluations: u64,
    nontrivial: HashSet<u64>,
    nontrivial_seen: u64,
    samples: Vec<Value>,
    classes: BTreeMap<String, u64>,
    excluded: BTreeMap<String, u64>,
    pub assumptions: Vec<String>,
    pub rule: String,
    subs: BTreeMap<String, SubStats>,
    violations: Vec<(String, PathBuf)>,
    violation_sigs: BTreeSet<String>,
    known_hits: BTreeMap<String, (u64, String)>,
    inconclusive: Vec<String>,
    pub extra: BTreeMap<String, Value>,
    replay_case: Option<Value>,
    replay_done: bool,
    /// minimum number of distinct non-trivial cases for the run to count (else exit 2)
    pub floor: u64,
    /// failure signatures starting with one of these prefixes are harness/infrastructure errors:
    /// they make the run inconclusive (exit 2) instead of being reported as violations
    /// (empty by default; e.g. engine `sim` uses "harness:")
    pub soft_prefixes: Vec<String>,
}

impl Ctx {
    pub fn new(args: Args) -> Ctx {
        let known = KnownFindings::load(&args.known);
        let replay_case = args.replay.as_ref().map(|p| {
            let txt = std::fs::read_to_string(p)
                .unwrap_or_else(|e| panic!("cannot read replay file {}: {e}", p.display()));
            serde_json::from_str::<Value>(&txt).expect("replay file is not JSON")
        });
        Ctx {
            args,
            known,
            start: Instant::now(),
            evaluations: 0,
            nontrivial: HashSet::new(),
            nontrivial_seen: 0,
            samples: vec![],
            classes: BTreeMap::new(),
            excluded: BTreeMap::new(),
            assumptions: vec![],
            rule: String::new(),
            subs: BTreeMap::new(),
            violations: vec![],
            violation_sigs: BTreeSet::new(),
            known_hits: BTreeMap::new(),
            inconclusive: vec![],
            extra: BTreeMap::new(),
            replay_case,
            replay_done: false,
            floor: 2,
            soft_prefixes: vec![],
        }
    }

    pub fn tier(&self) -> Tier {
        self.args.tier
    }
    pub fn prop(&self) -> &str {
        &self.args.prop
    }
    pub fn is_replay(&self) -> bool {
        self.replay_case.is_some()
    }
    pub fn seed_for(&self, name: &str) -> u64 {
        self.args.seed ^ fnv(name) ^ fnv(&self.args.prop).rotate_left(17)
    }
    pub fn assume(&mut self, s: impl Into<String>) {
        self.assumptions.push(s.into());
    }
    pub fn inconclusive(&mut self, why: impl Into<String>) {
        let w = why.into();
        eprintln!("INCONCLUSIVE property={} {}", self.args.prop, w);
        self.inconclusive.push(w);
    }
    pub fn count_excluded(&mut self, label: &str, n: u64) {
        *self.excluded.entry(label.to_string()).or_default() += n;
    }
    pub fn count_class(&mut self, label: &str, n: u64) {
        *self.classes.entry(label.to_string()).or_default() += n;
    }

    /// Account for one executed case.
    pub fn record(&mut self, sub: &str, hash: u64, obs: &Obs, sample: impl FnOnce() -> Value) {
        self.evaluations += 1;
        let st = self.subs.entry(sub.to_string()).or_default();
        st.evaluations += 1;
        for c in &obs.classes {
            *self.classes.entry(c.clone()).or_default() += 1;
        }
        for c in &obs.excluded {
            *self.excluded.entry(c.clone()).or_default() += 1;
        }
        if obs.nontrivial {
            st.nontrivial += 1;
            self.nontrivial_seen += 1;
            let n = self.nontrivial_seen;
            let fresh = self.nontrivial.insert(hash ^ fnv(sub));
            // spread samples over the run and over sub-checks
            let first_of_sub = st.nontrivial == 1;
            if fresh
                && ((first_of_sub && self.samples.len() < 24)
                    || (self.samples.len() < 32 && matches!(n, 7 | 50 | 300 | 2000 | 15000)))
            {
                self.samples.push(json!({"sub_check": sub, "case": sample()}));
            }
        }
    }

    /// Report a failure found by `sub` on `case`. Known findings are printed once and do not
    /// fail the run; anything else writes a replay file and prints a VIOLATION line.
    pub fn report(&mut self, sub: &str, fail: &Fail, case: Value) {
        if self.soft_prefixes.iter().any(|p| fail.sig.starts_with(p.as_str())) {
            let m = format!("{sub}: {}: {}", fail.sig, fail.msg.chars().take(600).collect::<String>());
            if self.inconclusive.len() < 20 {
                self.inconclusive(m);
            }
            return;
        }
        if let Some(what) = self.known.get(&self.args.prop, &fail.sig) {
            let e = self
                .known_hits
                .entry(fail.sig.clone())
                .or_insert((0, what.to_string()));
            e.0 += 1;
            return;
        }
        if !self.violation_sigs.insert(format!("{sub}|{}", fail.sig)) {
            return; // one replay file per (sub, signature)
        }
        let body = json!({
            "property": self.args.prop,
            "sub_check": sub,
            "signature": fail.sig,
            "message": fail.msg,
            "seed": self.args.seed,
            "tier": self.args.tier.name(),
            "case": case,
        });
        let txt = serde_json::to_string_pretty(&body).unwrap();
        let name = format!("{:016x}.json", fnv(&txt));
        let path = if self.is_replay() {
            self.args.replay.clone().unwrap()
        } else {
            let _ = std::fs::create_dir_all(&self.args.replay_dir);
            let p = self.args.replay_dir.join(name);
            if let Err(e) = std::fs::write(&p, &txt) {
                eprintln!("cannot write replay file {}: {e}", p.display());
            }
            p
        };
        println!(
            "VIOLATION property={} replay={}",
            self.args.prop,
            path.display()
        );
        println!("  sub_check={sub} signature={}", fail.sig);
        println!("  {}", fail.msg.replace('\n', "\n  "));
        self.violations.push((fail.sig.clone(), path));
    }

    fn note_known(&mut self, f: &Fail) {
        let what = self
            .known
            .get(&self.args.prop, &f.sig)
            .unwrap_or("")
            .to_string();
        let e = self.known_hits.entry(f.sig.clone()).or_insert((0, what));
        e.0 += 1;
    }

    /// Classify a failure inside a body: Ok(()) if its signature is a listed known finding
    /// (recorded, the search goes on), Err otherwise.
    pub fn is_known(&self, sig: &str) -> bool {
        self.known.get(&self.args.prop, sig).is_some()
    }

    /// Run a generated check. `body` must be a pure function of the case. In replay mode only
    /// the sub-check named in the replay file runs, on exactly the recorded case.
    pub fn check<S, F>(&mut self, sub: &str, cases: u32, strat: S, body: F)
    where
        S: Strategy,
        S::Value: Debug + Clone + Serialize + DeserializeOwned,
        F: Fn(&S::Value, &mut Obs) -> Result<(), Fail>,
    {
        if let Some(rc) = self.replay_case.clone() {
            if rc.get("sub_check").and_then(|s| s.as_str()) != Some(sub) {
                return;
            }
            self.replay_done = true;
            let case: S::Value = serde_json::from_value(rc["case"].clone())
                .expect("replay case does not deserialize for this sub-check");
            self.run_one(sub, &case, &body);
            return;
        }
        let known_sigs: BTreeSet<String> = self
            .known
            .known
            .keys()
            .filter(|(p, _)| *p == self.args.prop)
            .map(|(_, s)| s.clone())
            .collect();
        let seed = self.seed_for(sub);
        let cfg = Config {
            cases,
            failure_persistence: None,
            rng_algorithm: RngAlgorithm::ChaCha,
            rng_seed: RngSeed::Fixed(seed),
            max_shrink_iters: 4096,
            max_global_rejects: 1 << 20,
            ..Config::default()
        };
        let mut runner = TestRunner::new(cfg);
        struct St {
            failed: bool,
            recs: Vec<(u64, Obs, Option<Value>)>,
            last_fail: Option<Fail>,
        }
        let st = RefCell::new(St {
            failed: false,
            recs: vec![],
            last_fail: None,
        });
        let want_sample = RefCell::new(0u64);
        let res = runner.run(&strat, |case| {
            let mut obs = Obs::default();
            let r = std::panic::catch_unwind(std::panic::AssertUnwindSafe(|| body(&case, &mut obs)));
            let r = match r {
                Ok(r) => r,
                Err(p) => Err(Fail::new(
                    format!("panic:{}", panic_sig(&p)),
                    format!("panic: {}", panic_msg(&p)),
                )),
            };
            let mut s = st.borrow_mut();
            match r {
                Ok(()) => {
                    if !s.failed {
                        let h = hash_debug(&case);
                        let mut ws = want_sample.borrow_mut();
                        let sample = if obs.nontrivial {
                            *ws += 1;
                            // serialise lazily-ish: only a thin subset of cases
                            if *ws <= 2 || ws.is_power_of_two() {
                                Some(serde_json::to_value(&case).unwrap_or(Value::Null))
                            } else {
                                None
                            }
                        } else {
                            None
                        };
                        s.recs.push((h, obs, sample));
                    }
                    Ok(())
                }
                Err(f) => {
                    if known_sigs.contains(&f.sig) {
                        // known finding: record and keep searching behind it
                        if !s.failed {
                            obs.known_hits.push(f);
                            obs.excluded.push("known-finding".into());
                            let h = hash_debug(&case);
                            s.recs.push((h, obs, None));
                        }
                        Ok(())
                    } else {
                        s.failed = true;
                        s.last_fail = Some(f.clone());
                        Err(TestCaseError::fail(format!("{}: {}", f.sig, f.msg)))
                    }
                }
            }
        });
        let St {
            recs, last_fail, ..
        } = st.into_inner();
        for (h, obs, sample) in recs {
            for f in &obs.known_hits {
                self.note_known(f);
            }
            let sample_v = sample.clone();
            self.record_with(sub, h, &obs, sample_v);
        }
        match res {
            Ok(()) => {}
            Err(TestError::Fail(_reason, value)) => {
                // `last_fail` is the failure of the last failing (i.e. minimal) case run.
                let f = last_fail.unwrap_or_else(|| Fail::new("unknown", "unknown"));
                // re-run the body on the minimal value to get its own signature
                let mut obs = Obs::default();
                let r = std::panic::catch_unwind(std::panic::AssertUnwindSafe(|| body(&value, &mut obs)));
                let f = match r {
                    Ok(Err(f2)) => f2,
                    Err(p) => Fail::new(
                        format!("panic:{}", panic_sig(&p)),
                        format!("panic: {}", panic_msg(&p)),
                    ),
                    Ok(Ok(())) => f,
                };
                self.evaluations += 1;
                let case = serde_json::to_value(&value).unwrap_or(Value::Null);
                self.report(sub, &f, case);
            }
            Err(TestError::Abort(reason)) => {
                self.inconclusive(format!("{sub}: proptest aborted: {reason}"));
            }
        }
    }

    fn record_with(&mut self, sub: &str, hash: u64, obs: &Obs, sample: Option<Value>) {
        let had = sample.is_some();
        self.record(sub, hash, obs, || sample.unwrap_or(Value::Null));
        if !had {
            // drop Null samples that slipped in
            if let Some(last) = self.samples.last() {
                if last["case"].is_null() {
                    self.samples.pop();
                }
            }
        }
    }

    fn run_one<V, F>(&mut self, sub: &str, case: &V, body: &F)
    where
        V: Debug + Serialize,
        F: Fn(&V, &mut Obs) -> Result<(), Fail>,
    {
        let mut obs = Obs::default();
        let r = std::panic::catch_unwind(std::panic::AssertUnwindSafe(|| body(case, &mut obs)));
        let r = match r {
            Ok(r) => r,
            Err(p) => Err(Fail::new(
                format!("panic:{}", panic_sig(&p)),
                format!("panic: {}", panic_msg(&p)),
            )),
        };
        match r {
            Ok(()) => {
                // failures the body classified as known findings and kept searching behind
                for f in &obs.known_hits {
                    self.note_known(f);
                }
                let h = hash_debug(case);
                self.record(sub, h, &obs, || {
                    serde_json::to_value(case).unwrap_or(Value::Null)
                });
            }
            Err(f) => {
                self.evaluations += 1;
                let st = self.subs.entry(sub.to_string()).or_default();
                st.evaluations += 1;
                let v = serde_json::to_value(case).unwrap_or(Value::Null);
                self.report(sub, &f, v);
            }
        }
    }

    /// Run an enumerated (seed-independent) check over all cases of `iter`.
    /// Stops at the first unlisted failure of each signature (keeps going for known ones).
    pub fn check_all<V, I, F>(&mut self, sub: &str, iter: I, body: F)
    where
        V: Debug + Clone + Serialize + DeserializeOwned,
        I: IntoIterator<Item = V>,
        F: Fn(&V, &mut Obs) -> Result<(), Fail>,
    {
        if let Some(rc) = self.replay_case.clone() {
            if rc.get("sub_check").and_then(|s| s.as_str()) != Some(sub) {
                return;
            }
            self.replay_done = true;
            let case: V = serde_json::from_value(rc["case"].clone())
                .expect("replay case does not deserialize for this sub-check");
            self.run_one(sub, &case, &body);
            return;
        }
        let mut unlisted = 0;
        for case in iter {
            let before = self.violations.len();
            self.run_one(sub, &case, &body);
            if self.violations.len() > before {
                unlisted += 1;
                if unlisted >= 3 {
                    break;
                }
            }
        }
        self.subs.entry(sub.to_string()).or_default().exhaustive = true;
    }

    pub fn evaluations(&self) -> u64 {
        self.evaluations
    }
    /// Number of cases counted as excluded so far (generator noise etc.), not counting cases
    /// that hit a listed known finding.
    pub fn excluded_count(&self) -> u64 {
        self.excluded
            .iter()
            .filter(|(k, _)| k.as_str() != "known-finding")
            .map(|(_, v)| *v)
            .sum()
    }
    pub fn distinct_nontrivial(&self) -> u64 {
        self.nontrivial.len() as u64
    }
    pub fn violations(&self) -> usize {
        self.violations.len()
    }
    pub fn add_sample(&mut self, v: Value) {
        if self.samples.len() < 40 {
            self.samples.push(v);
        }
    }

    /// Write the evidence file, print the verdict lines and exit.
    pub fn finish(mut self) -> ! {
        if self.is_replay() && !self.replay_done {
            eprintln!("replay file names a sub-check this property run does not have");
            std::process::exit(2);
        }
        for (sig, (n, what)) in &self.known_hits {
            println!(
                "KNOWN-FINDING: property={} {} [{}] ({} cases hit it this run)",
                self.args.prop, what, sig, n
            );
        }
        let wall = self.start.elapsed().as_secs_f64();
        let distinct = self.nontrivial.len() as u64;
        if !self.is_replay() && self.violations.is_empty() && distinct < self.floor {
            let msg = format!(
                "only {distinct} distinct non-trivial cases (floor {}): vacuous run",
                self.floor
            );
            self.inconclusive(msg);
        }
        let subs: BTreeMap<String, Value> = self
            .subs
            .iter()
            .map(|(k, v)| {
                (
                    k.clone(),
                    json!({"evaluations": v.evaluations, "nontrivial": v.nontrivial, "enumerated": v.exhaustive}),
                )
            })
            .collect();
        let known_hits: BTreeMap<String, u64> =
            self.known_hits.iter().map(|(k, v)| (k.clone(), v.0)).collect();
        if self.samples.is_empty() {
            self.samples.push(json!({"note": "no non-trivial case was sampled"}));
        }
        let mut coverage = json!({
            "evaluations": self.evaluations,
            "distinct_nontrivial": distinct,
            "rule": self.rule,
            "samples": self.samples,
            "classes": self.classes,
            "excluded": self.excluded,
            "sub_checks": subs,
            "known_findings_hit": known_hits,
            "exhaustive": false,
            "inconclusive": self.inconclusive,
        });
        for (k, v) in &self.extra {
            coverage[k] = v.clone();
        }
        let ev = json!({
            "property_id": self.args.prop,
            "tier": self.args.tier.name(),
            "seed": self.args.seed,
            "level": "exploration",
            "coverage": coverage,
            "assumptions": self.assumptions,
            "wall_s": wall,
            "violations": self.violations.len(),
        });
        if !self.is_replay() {
            if let Some(d) = self.args.evidence.parent() {
                let _ = std::fs::create_dir_all(d);
            }
            if let Err(e) = std::fs::write(
                &self.args.evidence,
                serde_json::to_string_pretty(&ev).unwrap() + "\n",
            ) {
                eprintln!("cannot write evidence: {e}");
                std::process::exit(2);
            }
        }
        println!(
            "{} property={} tier={} seed={} evaluations={} distinct_nontrivial={} violations={} known_findings={} wall_s={:.1}",
            if !self.violations.is_empty() {
                "FAIL"
            } else if !self.inconclusive.is_empty() {
                "INCONCLUSIVE"
            } else {
                "PASS"
            },
            self.args.prop,
            self.args.tier.name(),
            self.args.seed,
            self.evaluations,
            distinct,
            self.violations.len(),
            self.known_hits.len(),
            wall
        );
        if !self.violations.is_empty() {
            std::process::exit(1);
        }
        if !self.inconclusive.is_empty() {
            std::process::exit(2);
        }
        std::process::exit(0);
    }
}

pub fn panic_msg(p: &Box<dyn std::any::Any + Send>) -> String {
    if let Some(s) = p.downcast_ref::<&str>() {
        s.to_string()
    } else if let Some(s) = p.downcast_ref::<String>() {
        s.clone()
    } else {
        "<non-string panic payload>".to_string()
    }
}

/// A short stable signature for a panic: its message with digits and quoted parts squashed.
pub fn panic_sig(p: &Box<dyn std::any::Any + Send>) -> String {
    let m = panic_msg(p);
    let first = m.lines().next().unwrap_or("");
    let mut out = String::new();
    let mut last_hash = false;
    for c in first.chars().take(80) {
        if c.is_ascii_digit() {
            if !last_hash {
                out.push('#');
                last_hash = true;
            }
        } else {
            out.push(c);
            last_hash = false;
        }
    }
    out
}

/// Install a panic hook that stays quiet (property bodies catch panics as failures; the default
/// hook would print thousands of backtraces while shrinking).
pub fn quiet_panics() {
    std::panic::set_hook(Box::new(|_| {}));
}

/// All compositions of n (ordered ways to write n as a sum of positive parts).
pub fn compositions(n: usize) -> Vec<Vec<usize>> {
    if n == 0 {
        return vec![vec![]];
    }
    let mut out = vec![];
    for mask in 0..(1u32 << (n - 1)) {
        let mut parts = vec![];
        let mut cur = 1;
        for i in 0..n - 1 {
            if mask & (1 << i) != 0 {
                parts.push(cur);
                cur = 1;
            } else {
                cur += 1;
            }
        }
        parts.push(cur);
        out.push(parts);
    }
    out
}

/// Monotone index mapping for shrinking-friendly choices: maps x in 0..=u16::MAX to 0..len.
pub fn pick_idx(x: u16, len: usize) -> usize {
    if len == 0 {
        0
    } else {
        ((x as usize) * len) >> 16
    }
}
