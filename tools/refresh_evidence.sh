#!/usr/bin/env bash
# Re-runs every registered quick check against /repo (unchanged tree) so that the committed
# evidence files come from the current machinery; prints one line per check.
cd "$(dirname "$0")/.."
seed=${1:-0}
for p in $(python3 -c "import json;print(' '.join(c['property_id'] for c in json.load(open('MANIFEST.json'))['checks']))"); do
  t0=$(date +%s)
  out=$(VERIF_SEED=$seed ./check $p --tier quick 2>&1); rc=$?
  echo "$p rc=$rc $(( $(date +%s) - t0 ))s $(echo "$out" | grep -E '^(PASS|FAIL|INCONCLUSIVE)' | tail -1 | cut -c1-160)"
  if [ $rc -ne 0 ]; then echo "$out" | tail -15; fi
done
