#!/usr/bin/env bash
# Runs the repository's stable baseline with the verification guard OFF (no RUSTFLAGS) and
# compares the result with /root/.vp/BASELINE.json: every test in stable_pass must pass.
# Usage: tools/baseline_off.sh [outdir]   (exit 0 = all stable tests passed)
set -uo pipefail
out=${1:-/tmp/vp-baseline-off}
mkdir -p "$out"
cd /repo
unset RUSTFLAGS
export CARGO_NET_OFFLINE=true
if [ -f /w/lib/nextest.toml ] && command -v cargo-nextest >/dev/null; then
  cargo nextest run --workspace --no-fail-fast --tool-config-file pb:/w/lib/nextest.toml --profile pb --test-threads 8 --offline > "$out/run.log" 2>&1
  junit=$(find /repo/target/nextest/pb -name junit.xml | head -1)
  cp "$junit" "$out/junit.xml" 2>/dev/null || true
  python3 - "$out" <<'PY'
import json, sys, xml.etree.ElementTree as ET
out = sys.argv[1]
base = json.load(open('/root/.vp/BASELINE.json'))
passed, failed = set(), set()
root = ET.parse(f'{out}/junit.xml').getroot()
for tc in root.iter('testcase'):
    tid = (tc.get('classname') or '') + '::' + (tc.get('name') or '')
    if tc.find('failure') is not None or tc.find('error') is not None or tc.find('flakyFailure') is not None or tc.find('rerunFailure') is not None:
        failed.add(tid)
    elif tc.find('skipped') is None:
        passed.add(tid)
passed -= failed
missing = [t for t in base['stable_pass'] if t not in passed]
print(f'passed={len(passed)} failed={len(failed)} stable_expected={len(base["stable_pass"])} stable_missing={len(missing)}')
if missing and len(missing) <= 40:
    # The simulator tests compile a crate through trybuild on first use; after a source change the
    # first run is cold and nextest's 300 s slow-timeout can terminate them. Re-run the missing
    # ones once with the now warm cache before judging.
    import subprocess, re
    names = sorted({t.split('::')[-1] for t in missing})
    expr = ' | '.join(f'test({n})' for n in names)
    r = subprocess.run(['cargo', 'nextest', 'run', '--workspace', '--offline', '--no-fail-fast', '--tool-config-file', 'pb:/w/lib/nextest.toml', '--profile', 'pb', '-E', expr], cwd='/repo', capture_output=True, text=True)
    open(f'{out}/rerun.log', 'w').write(r.stdout + r.stderr)
    root2 = ET.parse('/repo/target/nextest/pb/junit.xml').getroot()
    for tc in root2.iter('testcase'):
        tid = (tc.get('classname') or '') + '::' + (tc.get('name') or '')
        if tc.find('failure') is None and tc.find('error') is None and tc.find('skipped') is None:
            passed.add(tid)
    still = [t for t in missing if t not in passed]
    print(f're-run of {len(missing)} missing stable tests with a warm cache: {len(missing) - len(still)} passed, {len(still)} still missing')
    missing = still
for t in missing[:50]:
    print('  NOT PASSED:', t, '(failed)' if t in failed else '(not run)')
json.dump({'passed': sorted(passed), 'failed': sorted(failed), 'stable_missing': missing}, open(f'{out}/result.json', 'w'), indent=1)
sys.exit(1 if missing else 0)
PY
else
  cargo test --workspace --no-fail-fast --offline > "$out/run.log" 2>&1
  grep -E "^test result|FAILED" "$out/run.log" | tail -40
fi
