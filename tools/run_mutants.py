#!/usr/bin/env python3
"""Sensitivity runner: applies one textual mutant at a time to a scratch worktree of /repo
(tools/scratch.sh), runs the named check's quick tier there, reverts, and reports whether the
check caught it (exit 1 + VIOLATION). Never touches /repo.

  tools/run_mutants.py <scratch-name> <mutants.json> [id-prefix]

mutants.json: [{"id","prop","file","old","new","note"}]; the diff of each mutant is saved to
/verif/mutants/<prop>-<id>.diff; results go to /verif/mutants/results-<scratch-name>.json
"""
import json
import os
import subprocess
import sys
import time

name, spec = sys.argv[1], sys.argv[2]
prefix = sys.argv[3] if len(sys.argv) > 3 else ""
root = f"/tmp/vp-scratch-{name}"
repo = f"{root}/repo"
V = os.path.dirname(os.path.dirname(os.path.abspath(__file__)))
if not os.path.isdir(repo):
    subprocess.check_call([f"{V}/tools/scratch.sh", "new", name])
else:
    subprocess.check_call([f"{V}/tools/scratch.sh", "sync", name])
muts = json.load(open(spec))
results = []
resfile = f"{V}/mutants/results-{name}.json"
if os.path.exists(resfile):
    results = [r for r in json.load(open(resfile)) if not r["id"].startswith(prefix) or prefix == ""]
    if prefix == "":
        results = []
for m in muts:
    if not m["id"].startswith(prefix):
        continue
    path = os.path.join(repo, m["file"])
    src = open(path).read()
    if src.count(m["old"]) != 1:
        print(f"SKIP {m['id']}: pattern occurs {src.count(m['old'])} times")
        results.append({"id": m["id"], "prop": m["prop"], "caught": None, "note": "pattern mismatch"})
        continue
    open(path, "w").write(src.replace(m["old"], m["new"]))
    diff = subprocess.run(["git", "-C", repo, "diff"], capture_output=True, text=True).stdout
    open(f"{V}/mutants/{m['prop']}-{m['id']}.diff", "w").write(diff)
    t0 = time.time()
    props = m["prop"].split("+")
    caught_by = []
    outs = []
    for p in props:
        r = subprocess.run([f"{root}/check", p, "--tier", "quick"], capture_output=True, text=True)
        out = r.stdout + r.stderr
        outs.append(out[-1500:])
        if r.returncode == 1 and "VIOLATION property=" + p in out:
            caught_by.append(p)
        elif r.returncode == 2:
            caught_by.append(p + ":inconclusive")
    subprocess.check_call(["git", "-C", repo, "checkout", "--", m["file"]])
    sig = ""
    for o in outs:
        for line in o.splitlines():
            if "signature=" in line:
                sig = line.strip()
                break
        if sig:
            break
    ok = any(":" not in c for c in caught_by)
    print(f"{'CAUGHT' if ok else 'MISSED'} {m['id']} ({m['prop']}) by {caught_by} in {time.time()-t0:.0f}s {sig}", flush=True)
    results.append({"id": m["id"], "prop": m["prop"], "caught": ok, "caught_by": caught_by, "first_signature": sig, "note": m.get("note", ""), "secs": round(time.time() - t0)})
    json.dump(results, open(resfile, "w"), indent=1)
json.dump(results, open(resfile, "w"), indent=1)
