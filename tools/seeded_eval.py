#!/usr/bin/env python3
"""Confirm and evaluate one seeded breaking change produced by a blind sub-agent.

  tools/seeded_eval.py <PID> [--name <dir>] [--checks C01,C02] [--skip-tests] [--scratch seed]

Input: /tmp/seedout-<PID>/{patch.diff, demo/, meta.json}. Everything runs in the isolated scratch
/tmp/vp-scratch-<scratch> (tools/scratch.sh): never in /repo.
 1. the patch applies to /repo HEAD and the touched crates still build and pass their own tests;
 2. the demonstration fails with the patch and passes without it (the agent's recorded
    demo_cmd is re-run both ways when it can be run from the worktree; otherwise its recorded
    RESULTS.txt is kept and flagged "not re-run");
 3. the registered quick checks for the property (and any --checks extras) are run against the
    patched scratch; caught = exit 1 with a VIOLATION line.
Output: /verif/seeded/<name>/{patch.diff, demo/, meta.json (agent's + "confirmation" block)}.
"""
import json
import os
import re
import shutil
import subprocess
import sys
import time

V = os.path.dirname(os.path.dirname(os.path.abspath(__file__)))
args = sys.argv[1:]
pid = args[0]
opt = {"--name": pid, "--checks": pid, "--scratch": "seed"}
flags = set()
i = 1
while i < len(args):
    if args[i] in opt:
        opt[args[i]] = args[i + 1]
        i += 2
    else:
        flags.add(args[i])
        i += 1
src = f"/tmp/seedout-{pid}"
name = opt["--name"]
scratch = opt["--scratch"]
root = f"/tmp/vp-scratch-{scratch}"
repo = f"{root}/repo"
env = dict(os.environ, CARGO_NET_OFFLINE="true", CARGO_TARGET_DIR=f"{root}/repo-target", CARGO_TERM_COLOR="never")


def sh(cmd, cwd=None, timeout=7200):
    t0 = time.time()
    p = subprocess.run(cmd, shell=True, cwd=cwd, env=env, capture_output=True, text=True, timeout=timeout)
    return p.returncode, (p.stdout + p.stderr), time.time() - t0


if not os.path.isdir(repo):
    subprocess.check_call([f"{V}/tools/scratch.sh", "new", scratch])
else:
    subprocess.check_call([f"{V}/tools/scratch.sh", "sync", scratch])
    sh("git checkout -- . && git clean -fdq -e target", cwd=repo)
# bring the scratch worktree to /repo HEAD
head = subprocess.check_output(["git", "-C", "/repo", "rev-parse", "HEAD"], text=True).strip()
sh(f"git checkout -q --detach {head}", cwd=repo)

meta = json.load(open(f"{src}/meta.json"))
patch = f"{src}/patch.diff"
conf = {"repo_head": head, "ran": []}
rc, out, _ = sh(f"git apply --check {patch}", cwd=repo)
conf["patch_applies"] = rc == 0
if rc != 0:
    print("PATCH DOES NOT APPLY:\n" + out)
    conf["error"] = out[-2000:]
else:
    sh(f"git apply {patch}", cwd=repo)
    touched = subprocess.check_output(["git", "-C", repo, "diff", "--name-only"], text=True).split()
    conf["touched_files"] = touched
    crates = []
    for f in touched:
        parts = f.split("/")
        c = parts[0] if parts[0] != "hydro_deploy" else "/".join(parts[:2])
        if c not in crates:
            crates.append(c)
    pkgs = []
    for c in crates:
        try:
            txt = open(f"{repo}/{c}/Cargo.toml").read()
            pkgs.append(re.search(r'name\s*=\s*"([^"]+)"', txt).group(1))
        except Exception:
            pass
    conf["touched_packages"] = pkgs
    # 1. existing tests of the touched crates
    if "--skip-tests" not in flags:
        for p in pkgs:
            cmd = f"cargo test -p {p} --offline --no-fail-fast"
            rc, out, secs = sh(cmd, cwd=repo)
            ok = rc == 0
            conf["ran"].append({"cmd": cmd, "with_patch": True, "ok": ok, "secs": round(secs), "tail": out[-600:] if not ok else ""})
            print(f"existing tests {p}: {'pass' if ok else 'FAIL'} ({secs:.0f}s)")
    # 2. the demo both ways (best effort: demo_cmd is re-run with /tmp/seed-<PID> mapped to the scratch worktree)
    demo_cmd = meta.get("demo_cmd", "")
    demo_dir = f"{src}/demo"
    conf["demo"] = {"cmd": demo_cmd}
    if demo_cmd:
        # the agent's worktree path appears in the command; its demo files stay where they are
        agent_wt = f"/tmp/seed-{pid}"
        cmd = demo_cmd.split("#")[0].strip().replace(agent_wt, repo)
        # run scripts (RUN.sh etc.) through a copy with the worktree path rewritten
        for m in re.finditer(r"(/tmp/seedout-%s/demo/[\w.\-]+\.sh)" % pid, cmd):
            sp = m.group(1)
            if os.path.exists(sp):
                txt = open(sp).read().replace(agent_wt, repo)
                lp = f"{root}/demo-{pid}-{os.path.basename(sp)}"
                open(lp, "w").write(txt)
                cmd = cmd.replace(sp, lp)
        conf["demo"]["cmd_rerun"] = cmd

        def verdict(out):
            bad = ("test result: FAILED" in out) or ("error: test failed" in out) or ("panicked at" in out) or ("FAIL" in out and "test result: ok" not in out)
            good = "test result: ok" in out or "PASS" in out
            return "fails" if bad else ("passes" if good else "unknown")

        rc1, out1, s1 = sh(f"bash -c {json.dumps(cmd)}", cwd=repo, timeout=5400)
        sh(f"git apply -R {patch}", cwd=repo)
        rc2, out2, s2 = sh(f"bash -c {json.dumps(cmd)}", cwd=repo, timeout=5400)
        sh(f"git apply {patch}", cwd=repo)
        sh("git clean -fdq -e target", cwd=repo)
        conf["demo"].update({"with_patch": verdict(out1), "without_patch": verdict(out2), "with_tail": out1[-1200:], "without_tail": out2[-500:]})
        print(f"demo: with patch {verdict(out1)}, without {verdict(out2)}")
    # 3. my checks
    conf["checks"] = {}
    for c in opt["--checks"].split(","):
        rc, out, secs = sh(f"{root}/check {c} --tier quick", cwd=root)
        sig = [l.strip() for l in out.splitlines() if "signature=" in l][:3]
        caught = rc == 1 and f"VIOLATION property={c}" in out
        conf["checks"][c] = {"exit": rc, "caught": caught, "secs": round(secs), "signatures": sig}
        print(f"check {c}: exit {rc} {'CAUGHT' if caught else 'missed'} {sig[:1]}")
    sh("git checkout -- . && git clean -fdq -e target", cwd=repo)

dst = f"{V}/seeded/{name}"
shutil.rmtree(dst, ignore_errors=True)
os.makedirs(dst)
shutil.copy(patch, f"{dst}/patch.diff")
if os.path.isdir(f"{src}/demo"):
    shutil.copytree(f"{src}/demo", f"{dst}/demo", ignore=shutil.ignore_patterns("target", "Cargo.lock"))
meta["confirmation"] = conf
json.dump(meta, open(f"{dst}/meta.json", "w"), indent=1)
print(json.dumps({k: v for k, v in conf.items() if k in ("patch_applies", "checks")}, indent=1))
