#!/usr/bin/env python3
"""Confirm and evaluate one seeded breaking change produced by a blind sub-agent.

  tools/seeded_eval.py <PID> [--name <dir>] [--checks C01,C02] [--skip-tests] [--scratch seed]

Input: /tmp/seedout-<PID>/{patch.diff, demo/, meta.json}. Everything runs in the isolated scratch
/tmp/vp-scratch-<scratch> (tools/scratch.sh): never in /repo.
 1. the patch applies to /repo HEAD and the touched crates still build and pass their own tests;
 2. the demonstration fails with the patch and passes without it (the agent's recorded
    demo_cmd is re-run both ways when it can be run from the worktree; otherwise its recorded
    RESULTS.txt is kept and flagged "not re-run");
 3. the registered quick checks for the property (and any --checks extras) are run against the
    patched scratch; caught = exit 1 with a VIOLATION line.
Output: /verif/seeded/<name>/{patch.diff, demo/, meta.json (agent's + "confirmation" block)}.
"""
import json
import os
import re
import shutil
import subprocess
import sys
import time

V = os.path.dirname(os.path.dirname(os.path.abspath(__file__)))
args = sys.argv[1:]
pid = args[0]
opt = {"--name": pid, "--checks": pid, "--scratch": "seed"}
flags = set()
i = 1
while i < len(args):
    if args[i] in opt:
        opt[args[i]] = args[i + 1]
        i += 2
    else:
        flags.add(args[i])
        i += 1
src = f"/tmp/seedout-{pid}"
name = opt["--name"]
scratch = opt["--scratch"]
root = f"/tmp/vp-scratch-{scratch}"
repo = f"{root}/repo"
env = dict(os.environ, CARGO_NET_OFFLINE="true", CARGO_TARGET_DIR=f"{root}/repo-target", CARGO_TERM_COLOR="never")


def sh(cmd, cwd=None, timeout=7200):
    t0 = time.time()
    p = subprocess.run(cmd, shell=True, cwd=cwd, env=env, capture_output=True, text=True, timeout=timeout)
    return p.returncode, (p.stdout + p.stderr), time.time() - t0


if not os.path.isdir(repo):
    subprocess.check_call([f"{V}/tools/scratch.sh", "new", scratch])
else:
    subprocess.check_call([f"{V}/tools/scratch.sh", "sync", scratch])
    sh("git checkout -- . && git clean -fdq -e target", cwd=repo)
# bring the scratch worktree to /repo HEAD
head = subprocess.check_output(["git", "-C", "/repo", "rev-parse", "HEAD"], text=True).strip()
sh(f"git checkout -q --detach {head}", cwd=repo)

meta = json.load(open(f"{src}/meta.json"))
patch = f"{src}/patch.diff"
conf = {"repo_head": head, "ran": []}
rc, out, _ = sh(f"git apply --check {patch}", cwd=repo)
conf["patch_applies"] = rc == 0
if rc != 0:
    print("PATCH DOES NOT APPLY:\n" + out)
    conf["error"] = out[-2000:]
else:
    sh(f"git apply {patch}", cwd=repo)
    touched = subprocess.check_output(["git", "-C", repo, "diff", "--name-only"], text=True).split()
    conf["touched_files"] = touched
    crates = []
    for f in touched:
        parts = f.split("/")
        c = parts[0] if parts[0] != "hydro_deploy" else "/".join(parts[:2])
        if c not in crates:
            crates.append(c)
    pkgs = []
    for c in crates:
        try:
            txt = open(f"{repo}/{c}/Cargo.toml").read()
            pkgs.append(re.search(r'name\s*=\s*"([^"]+)"', txt).group(1))
        except Exception:
            pass
    conf["touched_packages"] = pkgs
    # 1. existing tests of the touched crates
    if "--skip-tests" not in flags:
        for p in pkgs:
            # heavy crates: the full suite takes the better part of an hour on the shared machine;
            # run the unit tests plus the integration tests the agent recorded, and rely on the
            # agent's own record (meta.existing_tests_run) for the rest
            heavy = p in ("dfir_rs", "hydro_lang", "hydro_test", "hydro_std")
            cmd = f"cargo test -p {p} --offline --no-fail-fast" + (" --lib" if heavy else "")
            if heavy:
                extra = sorted(set(re.findall(r"--test\s+([\w]+)", " ".join(meta.get("existing_tests_run", [])))))
                extra = [t for t in extra if os.path.exists(f"{repo}/{p}/tests/{t}.rs")][:8]
                cmd += "".join(f" --test {t}" for t in extra)
            rc, out, secs = sh(cmd, cwd=repo)
            ok = rc == 0
            conf["ran"].append({"cmd": cmd, "with_patch": True, "ok": ok, "secs": round(secs), "tail": out[-600:] if not ok else ""})
            print(f"existing tests {p}: {'pass' if ok else 'FAIL'} ({secs:.0f}s)")
    # 2. the demo both ways (best effort: demo_cmd is re-run with /tmp/seed-<PID> mapped to the scratch worktree)
    demo_cmd = meta.get("demo_cmd", "")
    demo_dir = f"{src}/demo"
    conf["demo"] = {"cmd": demo_cmd}
    if demo_cmd:
        # the agent's worktree path appears in the command; its demo files stay where they are
        agent_wt = f"/tmp/seed-{pid}"
        cmd = demo_cmd.split("#")[0].strip().replace(agent_wt, repo)
        # run scripts (RUN.sh etc.) through a copy with the worktree path rewritten
        for m in re.finditer(r"(/tmp/seedout-%s/demo/[\w.\-]+\.sh)" % pid, cmd):
            sp = m.group(1)
            if os.path.exists(sp):
                txt = open(sp).read().replace(agent_wt, repo)
                lp = f"{root}/demo-{pid}-{os.path.basename(sp)}"
                open(lp, "w").write(txt)
                cmd = cmd.replace(sp, lp)
        # standalone demo projects (own Cargo.toml with path deps on the agent's worktree): run a
        # copy whose paths point at the scratch worktree instead
        if os.path.exists(f"{demo_dir}/Cargo.toml"):
            local_demo = f"{root}/demo-{pid}"
            shutil.rmtree(local_demo, ignore_errors=True)
            shutil.copytree(demo_dir, local_demo, ignore=shutil.ignore_patterns("target"))
            for dp, _, fs in os.walk(local_demo):
                for fn in fs:
                    if fn.endswith((".toml", ".sh", ".rs", ".txt", ".md", ".lock")):
                        pth = os.path.join(dp, fn)
                        try:
                            t = open(pth).read()
                        except Exception:
                            continue
                        if agent_wt in t or demo_dir in t:
                            open(pth, "w").write(t.replace(demo_dir, local_demo).replace(agent_wt, repo))
            cmd = cmd.replace(demo_dir, local_demo)
        conf["demo"]["cmd_rerun"] = cmd

        def verdict(out):
            bad = ("test result: FAILED" in out) or ("error: test failed" in out) or ("panicked at" in out) or ("FAIL" in out and "test result: ok" not in out)
            good = "test result: ok" in out or "PASS" in out
            return "fails" if bad else ("passes" if good else "unknown")

        # robust mode: a single test file in demo/ → copy it into <touched crate>/tests/ and run it
        # with `cargo test --test`; this does not depend on the free-form demo_cmd text
        smart = None
        rs_files = [f for f in os.listdir(demo_dir) if f.endswith(".rs")] if os.path.isdir(demo_dir) else []
        # demos that patch a test into an existing module ship a run_demo.sh: run that script (with
        # the agent's worktree path rewritten to the scratch worktree) instead of the smart mode
        run_sh = f"{demo_dir}/run_demo.sh"
        if os.path.exists(run_sh):
            txt = open(run_sh).read().replace(agent_wt, repo)
            lp = f"{demo_dir}/.run_demo_{scratch}.sh"  # same directory, so $(dirname $0) still finds the demo files
            open(lp, "w").write(txt)
            cmd = f"bash {lp} {repo}"
            conf["demo"]["cmd_rerun"] = cmd
            rs_files = []
        if not os.path.exists(f"{demo_dir}/Cargo.toml") and rs_files:
            # choose the crate named in the command if any, else the first touched crate
            crate_dir, pkg = crates[0], (pkgs[0] if pkgs else None)
            mm = re.search(r"-p\s+([\w\-]+)", demo_cmd)
            if mm:
                for c2 in os.listdir(repo):
                    tp = f"{repo}/{c2}/Cargo.toml"
                    if os.path.exists(tp) and re.search(r'name\s*=\s*"%s"' % re.escape(mm.group(1)), open(tp).read()):
                        crate_dir, pkg = c2, mm.group(1)
                if mm.group(1) == "hydro_deploy_integration":
                    crate_dir, pkg = "hydro_deploy/hydro_deploy_integration", mm.group(1)
            tests = [f[:-3] for f in rs_files]
            # a demo file that drives a higher-level crate goes into that crate's tests/
            per_file = {}
            for f in rs_files:
                txt = open(f"{demo_dir}/{f}").read()
                tgt = (crate_dir, pkg)
                for hi_dir, hi_pkg in (("hydro_test", "hydro_test"), ("hydro_std", "hydro_std"), ("hydro_lang", "hydro_lang"), ("dfir_rs", "dfir_rs")):
                    if re.search(r"\b%s::" % hi_pkg, txt) and hi_pkg != pkg and pkg in ("dfir_lang", "dfir_pipes", "lattices", "variadics", "sinktools", "dfir_rs", "hydro_lang", "hydro_std"):
                        # only move "upwards" in the dependency order
                        order = ["variadics", "lattices", "sinktools", "dfir_pipes", "dfir_lang", "dfir_rs", "hydro_lang", "hydro_std", "hydro_test"]
                        if order.index(hi_pkg) > order.index(pkg):
                            tgt = (hi_dir, hi_pkg)
                            break
                per_file[f[:-3]] = tgt
            flags_env = ""
            blob = demo_cmd + "".join(open(f"{demo_dir}/{f}").read() for f in rs_files)
            if "hydro_project_hydro_verif" in blob or "verif_new" in blob or "verif_point" in blob:
                flags_env = 'RUSTFLAGS="--cfg hydro_project_hydro_verif" CARGO_TARGET_DIR=%s/repo-target-verif ' % root
            smart = (crate_dir, pkg, tests, flags_env, per_file)

        def run_demo():
            if smart:
                crate_dir, pkg, tests, flags_env, per_file = smart
                groups = {}
                for t in tests:
                    groups.setdefault(per_file[t], []).append(t)
                rc_all, out_all, secs_all, cmds = 0, "", 0.0, []
                for (cd, pk), ts in groups.items():
                    os.makedirs(f"{repo}/{cd}/tests", exist_ok=True)
                    for t in ts:
                        shutil.copy(f"{demo_dir}/{t}.rs", f"{repo}/{cd}/tests/{t}.rs")
                    c = f"{flags_env}cargo test -p {pk} --offline " + " ".join(f"--test {t}" for t in ts)
                    rc, out, secs = sh(c, cwd=repo, timeout=5400)
                    for t in ts:
                        os.remove(f"{repo}/{cd}/tests/{t}.rs")
                    rc_all |= rc
                    out_all += out
                    secs_all += secs
                    cmds.append(c)
                conf["demo"]["cmd_rerun"] = " ; ".join(cmds)
                return rc_all, out_all, secs_all
            return sh(f"bash -c {json.dumps(cmd)}", cwd=repo, timeout=5400)

        rc1, out1, s1 = run_demo()
        sh(f"git apply -R {patch}", cwd=repo)
        rc2, out2, s2 = run_demo()
        sh(f"git apply {patch}", cwd=repo)
        sh("git clean -fdq -e target", cwd=repo)
        conf["demo"].update({"with_patch": verdict(out1), "without_patch": verdict(out2), "with_tail": out1[-1200:], "without_tail": out2[-500:]})
        print(f"demo: with patch {verdict(out1)}, without {verdict(out2)}")
    # 3. my checks
    conf["checks"] = {}
    for c in opt["--checks"].split(","):
        rc, out, secs = sh(f"{root}/check {c} --tier quick", cwd=root)
        sig = [l.strip() for l in out.splitlines() if "signature=" in l][:3]
        caught = rc == 1 and f"VIOLATION property={c}" in out
        conf["checks"][c] = {"exit": rc, "caught": caught, "secs": round(secs), "signatures": sig}
        print(f"check {c}: exit {rc} {'CAUGHT' if caught else 'missed'} {sig[:1]}")
    sh("git checkout -- . && git clean -fdq -e target", cwd=repo)

dst = f"{V}/seeded/{name}"
if "--skip-tests" in flags and os.path.exists(f"{dst}/meta.json"):
    try:
        prev = json.load(open(f"{dst}/meta.json")).get("confirmation", {})
        if prev.get("ran") and not conf.get("ran"):
            conf["ran"] = prev["ran"]
            conf["ran_note"] = f"existing-test results carried over from the evaluation at repo head {prev.get('repo_head')}"
    except Exception:
        pass
shutil.rmtree(dst, ignore_errors=True)
os.makedirs(dst)
shutil.copy(patch, f"{dst}/patch.diff")
if os.path.isdir(f"{src}/demo"):
    shutil.copytree(f"{src}/demo", f"{dst}/demo", ignore=shutil.ignore_patterns("target", "Cargo.lock"))
meta["confirmation"] = conf
json.dump(meta, open(f"{dst}/meta.json", "w"), indent=1)
print(json.dumps({k: v for k, v in conf.items() if k in ("patch_applies", "checks")}, indent=1))
