#!/usr/bin/env bash
# Isolated copy of the machinery + a scratch worktree of /repo, for mutant / seeded-change runs
# that must not disturb /repo.  Usage:
#   tools/scratch.sh new  <name>            create /tmp/vp-scratch-<name> (worktree of /repo HEAD + copy of /verif machinery)
#   tools/scratch.sh sync <name>            re-copy check, engines/, known_findings.json from /verif
#   tools/scratch.sh rm   <name>            remove it (worktree + build output)
# then:  git -C /tmp/vp-scratch-<name>/repo apply <patch>;  /tmp/vp-scratch-<name>/check C01 [--tier ..]
set -euo pipefail
cmd=$1; name=$2; root=/tmp/vp-scratch-$name
here=$(cd "$(dirname "$0")/.." && pwd)
sync() {
  mkdir -p "$root/engines" "$root/evidence" "$root/replays"
  rsync -a --delete --exclude target --exclude work "$here/engines/" "$root/engines/"
  cp "$here/check" "$root/check"
  [ -f "$here/known_findings.json" ] && cp "$here/known_findings.json" "$root/known_findings.json" || true
  rm -rf "$root/known_findings.d"; [ -d "$here/known_findings.d" ] && cp -r "$here/known_findings.d" "$root/known_findings.d" || true
  # rsync -a keeps mtimes: make cargo see every synced source as newer than any earlier build
  find "$root/engines" \( -name '*.rs' -o -name '*.toml' \) -exec touch {} +
}
case $cmd in
  new)
    mkdir -p "$root"
    # include uncommitted tracked changes? no: HEAD only (hooks are committed)
    git -C /repo worktree add --detach "$root/repo" HEAD >/dev/null
    sync ;;
  sync) sync ;;
  rm)
    git -C /repo worktree remove --force "$root/repo" 2>/dev/null || true
    rm -rf "$root"
    git -C /repo worktree prune ;;
  *) echo "unknown command"; exit 2 ;;
esac
