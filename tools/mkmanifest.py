#!/usr/bin/env python3
"""Regenerates /verif/MANIFEST.json from tools/claims.json (one entry per claimed property) and
properties.jsonl (every unclaimed property goes to not_applicable with its reason)."""
import json
import os
import subprocess
import sys

V = os.path.dirname(os.path.dirname(os.path.abspath(__file__)))
sys.path.insert(0, V)
claims = json.load(open(os.path.join(V, "tools", "claims.json")))
props = [json.loads(l) for l in open(os.path.join(V, "properties.jsonl")) if l.strip()]

ENGINES = {}
src = open(os.path.join(V, "check")).read()
exec(src[src.index("ENGINES = {"):src.index("PROP_ENGINE =")], ENGINES)
ENG = ENGINES["ENGINES"]
prop_engine = {p: e for e, ps in ENG.items() for p in ps}

checks = []
na = []
for p in props:
    pid = p["id"]
    c = claims["claims"].get(pid)
    if not c:
        na.append({"property_id": pid, "reason": claims["unclaimed"].get(pid, "check not built yet in this round (engine under construction); see DESIGN.md §4 for the planned generated check")})
        continue
    checks.append({
        "property_id": pid,
        "quick_cmd": f"./check {pid} --tier quick",
        "thorough_cmd": f"./check {pid} --tier thorough",
        "evidence_file": f"/verif/evidence/{pid}.json",
        "replay_cmd_template": f"./check {pid} --replay {{path}}",
        "engine": prop_engine[pid],
        "level_claimed": {
            "category": "exploration",
            "text": c["text"],
            "design_ref": c.get("design_ref", f"DESIGN.md §4 {pid}"),
        },
        "level_note": c["note"],
        "technique": c["technique"],
    })

hooks_commits = claims.get("hook_commits", [])
engines = []
kinds = claims.get("engine_kinds", {})
for e, ps in ENG.items():
    if os.path.isdir(os.path.join(V, "engines", e)):
        engines.append({"name": e, "path": f"/verif/engines/{e}", "serves_properties": [p for p in ps if p in claims["claims"]], "kind_free_text": kinds.get(e, "")})

m = {
    "version": 1,
    "setup_cmd": "./check --setup",
    "hooks": {
        "guard": "--cfg hydro_project_hydro_verif",
        "enable": "RUSTFLAGS=\"--cfg hydro_project_hydro_verif\" (set by ./check for every engine build; engines depend on /repo crates by path through the /verif/repo symlink)",
        "baseline_off_cmd": "./tools/baseline_off.sh   # = cd /repo && (no RUSTFLAGS) cargo nextest run --workspace --no-fail-fast --tool-config-file pb:/w/lib/nextest.toml --profile pb --test-threads 8 --offline, then compares with /root/.vp/BASELINE.json stable_pass",
        "source_commits": hooks_commits,
        "add_only": True,
    },
    "engines": engines,
    "checks": checks,
    "notes": claims.get("notes", ""),
    "not_applicable": na,
}
json.dump(m, open(os.path.join(V, "MANIFEST.json"), "w"), indent=1)
print(f"MANIFEST.json: {len(checks)} checks, {len(na)} not_applicable")
