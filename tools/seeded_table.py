#!/usr/bin/env python3
"""Prints the markdown table of seeded breaking changes (from seeded/*/meta.json)."""
import glob, json, os
rows = []
notes = json.load(open(os.path.join(os.path.dirname(os.path.abspath(__file__)), "seeded_notes.json")))
for f in sorted(glob.glob(os.path.join(os.path.dirname(os.path.dirname(os.path.abspath(__file__))), "seeded", "*", "meta.json"))):
    m = json.load(open(f))
    c = m.get("confirmation", {})
    name = os.path.basename(os.path.dirname(f))
    checks = c.get("checks", {})
    caught = [k for k, v in checks.items() if v.get("caught")]
    sig = ""
    for v in checks.values():
        if v.get("signatures"):
            sig = v["signatures"][0].replace("sub_check=", "").replace("signature=", "→ ")
            break
    demo = c.get("demo", {})
    tests_ok = all(r.get("ok") for r in c.get("ran", [])) if c.get("ran") else None
    rows.append((name, m.get("property", ""), (m.get("summary", "") or "")[:160].replace("|", "/").replace("\n", " "), (m.get("needs", "") or "")[:200].replace("|", "/").replace("\n", " "), "pass" if tests_ok else ("n/a" if tests_ok is None else "FAIL"), f"{demo.get('with_patch','?')}/{demo.get('without_patch','?')}", ", ".join(caught) if caught else "**missed**", sig[:110], notes.get(name, "")))
print("| Seeded change | What it does | What it needs to manifest | Existing tests with patch | Demo with/without patch | Caught by (quick tier) | First signature | Note |")
print("|---|---|---|---|---|---|---|---|")
for r in rows:
    print("| " + " | ".join(str(x) for x in (r[0], r[2], r[3], r[4], r[5], r[6], r[7], r[8])) + " |")
