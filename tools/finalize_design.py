#!/usr/bin/env python3
"""Regenerates the '9.10 Seeded breaking changes' section of DESIGN.md from seeded/*/meta.json."""
import os, subprocess, re
V = os.path.dirname(os.path.dirname(os.path.abspath(__file__)))
table = subprocess.check_output(["python3", os.path.join(V, "tools", "seeded_table.py")], text=True)
sec = '''### 9.10 Seeded breaking changes (blind sub-agents) — which checks catch which changes
One fresh sub-agent per property was given only the property text (statement, quantifier, anchor
files) and its own scratch worktree of /repo — nothing from /verif — and asked for a subtle change
that breaks the property while the code still compiles and the existing tests of the touched
crates pass, with a demonstration that fails with the change and passes without it. Each change
was then confirmed in an isolated scratch (`tools/seeded_eval.py`, never in /repo): the patch
applies to /repo HEAD, the touched crates' existing tests pass with it (for the heavy crates
dfir_rs / hydro_lang / hydro_test / hydro_std: the unit tests plus the integration tests the agent
recorded; `surface_compile_fail`, which fails on the unchanged tree here, is ignored), the
demonstration fails with and passes without the patch, and the registered quick check(s) were
run against the patched scratch. The kept changes are in `seeded/<id>/` (patch.diff, demo/,
meta.json with the agent's description and the confirmation block). A "demo … unknown" entry means
the demonstration patches a test into an existing module and could not be re-run mechanically by
the evaluation script; the agent's recorded RESULTS.txt is kept in that case.

Checks that missed a change were strengthened (column "Note") and the change re-run; the
strengthening is generic (a new class of generated inputs or corpus programs), not a special case
for the seeded input.

'''
sec += table + '''
Besides the blind changes, each engine was checked against the hand-written mutants of §4
(`mutants/*.diff`, results in `mutants/results-*.json` / `mutants/RESULTS-graph.txt` and the
engines' STATUS.md files): every non-equivalent mutant is caught by the quick tier of its
property's check (lat 25/27 with 2 equivalent mutants, pipes 17/17 + 1 equivalent, rt 25/25,
graph 18/18, dfirsem 16 caught + 1 that cannot surface as wrong output, hydro 16/16, sim 15 caught
+ 3 that abort the simulator and are reported inconclusive).
'''
p = os.path.join(V, "DESIGN.md")
s = open(p).read()
marker = "### 9.10 Seeded breaking changes"
tail_marker = "### 9.11 "
tail = ""
if tail_marker in s:
    tail = "\n" + s[s.index(tail_marker):]
    s = s[:s.index(tail_marker)]
if marker in s:
    s = s[:s.index(marker)].rstrip("\n") + "\n\n" + sec + tail
else:
    s = s.rstrip("\n") + "\n\n" + sec + tail
open(p, "w").write(s)
print("DESIGN.md §9.10 regenerated,", table.count("\n") - 2, "rows")
